#!/bin/bash
# run_with_fuzz.sh <verif-binary> <C13|C14> <tier>: proptest stages first; on the thorough tier
# additionally a coverage-guided libFuzzer campaign whose oracle lives inside the target.
BIN="$1"; ID="$2"; TIER="$3"
"$BIN" run "$ID" "$TIER"; rc=$?
[ $rc -ne 0 ] && exit $rc
[ "$TIER" = thorough ] || exit 0
cd /verif/fuzz || exit 2
case "$ID" in C13) T=roundtrip ;; C14) T=decode ;; *) exit 0 ;; esac
if ! ./build.sh >/verif/fuzz/build.log 2>&1; then
  echo "INCONCLUSIVE: libFuzzer targets did not build (see /verif/fuzz/build.log); proptest stages passed"; exit 2
fi
EXE=/verif/fuzz/target/x86_64-unknown-linux-gnu/release/$T
SEED="${VERIF_SEED:-0}"; [ "$SEED" = 0 ] && SEED=1
SECS="${VERIF_FUZZ_SECS:-600}"
RUN=/verif/fuzz/corpus-run/$T-$$; rm -rf "$RUN"; mkdir -p "$RUN/corpus" /verif/replays
cp seeds/$T/* "$RUN/corpus/" 2>/dev/null
LOG="$RUN/fuzz.log"
"$EXE" "$RUN/corpus" -max_len=1500 -len_control=0 -seed="$SEED" -max_total_time="$SECS" -fork=12 \
   -malloc_limit_mb=8 -rss_limit_mb=2048 -timeout=20 -artifact_prefix=/verif/replays/$ID-fuzz- >"$LOG" 2>&1
frc=$?
ART=$(grep -oE "/verif/replays/$ID-fuzz-[a-z-]*[0-9a-f]+" "$LOG" | tail -1)
STATS=$(grep -E "^#[0-9]+: cov:" "$LOG" | tail -1)
python3 - "$ID" "$T" "$SECS" "$SEED" "$STATS" "$(ls "$RUN/corpus" | wc -l)" <<'PY'
import json,sys,re
pid,t,secs,seed,stats,corp=sys.argv[1:7]
p=f"/verif/evidence/{pid}.json"
e=json.load(open(p))
m=re.match(r"#(\d+): cov: (\d+) ft: (\d+)",stats or "")
e["coverage"].setdefault("stages",[]).append({"stage":"libfuzzer-"+t,"engine":"cargo-fuzz/libFuzzer, ASan, -fork=12","max_total_time_s":int(secs),"seed":int(seed),
  "executions":int(m.group(1)) if m else None,"coverage_edges":int(m.group(2)) if m else None,"features":int(m.group(3)) if m else None,"corpus_files":int(corp)})
if m: e["coverage"]["evaluations"]+=int(m.group(1))
json.dump(e,open(p,"w"),indent=1)
PY
if [ -n "$ART" ] && [ -f "$ART" ]; then
  tail -5 "$LOG"
  echo "VIOLATION property=$ID replay=$ART"
  rm -rf "$RUN"; exit 1
fi
if [ $frc -ne 0 ]; then echo "INCONCLUSIVE: libFuzzer exited with $frc without an artifact"; tail -5 "$LOG"; rm -rf "$RUN"; exit 2; fi
echo "[${ID}:libfuzzer-$T] $STATS"
rm -rf "$RUN"
echo "OK property=$ID tier=thorough (proptest stages + libFuzzer $SECS s)"
exit 0
