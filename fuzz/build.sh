#!/bin/bash
# builds the libFuzzer targets offline (nightly toolchain, cargo-fuzz)
cd "$(dirname "$0")" || exit 2
export CARGO_NET_OFFLINE=true
export RUSTFLAGS="--cfg btdht_verif --cfg tokio_unstable"
[ -f Cargo.lock ] || cp ../harness/Cargo.lock Cargo.lock
exec cargo +nightly fuzz build --fuzz-dir . --target-dir /verif/fuzz/target "$@"
