#![no_main]
// C13: whatever the decoder accepts re-encodes to the canonical encoding (independent codec) of
// the decoded message and decodes again to the same message.
use libfuzzer_sys::fuzz_target;

fuzz_target!(|data: &[u8]| {
    if data.len() <= 1500 {
        if let Err((kind, detail)) = verif::props::c13::check_bytes(data) {
            panic!("C13 violation {kind}: {detail}");
        }
    }
});
