#![no_main]
// C14: Message::decode must not crash, abort, overflow the stack or allocate out of proportion
// (run with -malloc_limit_mb=8 -rss_limit_mb=1024 -max_len=1500).
use libfuzzer_sys::fuzz_target;

fuzz_target!(|data: &[u8]| {
    if data.len() <= 1500 {
        let _ = btdht::message::Message::decode(data);
    }
});
