#!/bin/bash
# tools/sweep.sh <seeds...> — run every quick check under several VERIF_SEED values, away from /verif's
# build and evidence directories (for use under `vp run`). Prints one line per run.
cd "$(dirname "$0")/.." || exit 2
export CARGO_TARGET_DIR="$PWD/target-sweep" VERIF_HOME="$PWD/sweep-home"
mkdir -p "$VERIF_HOME"; cp -r corpus known_findings.json "$VERIF_HOME/" 2>/dev/null
for s in "$@"; do
  for p in C01 C02 C03 C04 C05 C06 C07 C08 C09 C10 C11 C12 C13 C14 C15 C16 C17 C18 C19 C20; do
    t0=$(date +%s)
    out=$(VERIF_SEED=$s ./check $p ${SWEEP_TIER:-quick} 2>&1); rc=$?
    echo "seed=$s $p rc=$rc $(( $(date +%s) - t0 ))s :: $(echo "$out" | grep -E "^(VIOLATION|violation kind|INCONCLUSIVE|KNOWN)" | head -3 | tr '\n' ' ' | cut -c1-300)"
  done
done
