#!/usr/bin/env python3
"""Sensitivity runner that never touches /repo or /verif:
   tools/mutq.py <mutants.py> [name-filter]
mutants.py defines MUTANTS = [(name, "C08,C09", "src/file.rs", old, new), ...].
Works in the scratch tree /tmp/mutwork (copy of /repo working tree + copy of the harness)."""
import os, subprocess, sys, time, shutil, runpy
W = "/tmp/mutwork"
def sh(cmd, **kw):
    return subprocess.run(cmd, shell=True, capture_output=True, text=True, **kw)
def sync():
    os.makedirs(W + "/home", exist_ok=True)
    sh(f"rsync -a --delete --exclude target --exclude .git /repo/ {W}/repo/")
    sh(f"rsync -a --delete --exclude target /verif/harness/ {W}/harness/")
    sh(f"rsync -a --delete /verif/corpus/ {W}/home/corpus/; cp /verif/known_findings.json {W}/home/")
    c = open(f"{W}/harness/Cargo.toml").read().replace('path = "/repo"', f'path = "{W}/repo"')
    open(f"{W}/harness/Cargo.toml", "w").write(c)
    c = open(f"{W}/harness/.cargo/config.toml").read().replace("/verif/target", f"{W}/target")
    open(f"{W}/harness/.cargo/config.toml", "w").write(c)
def build():
    r = sh("CARGO_NET_OFFLINE=true cargo build --release --quiet", cwd=f"{W}/harness")
    return r.returncode == 0, r.stderr[-2000:]
def main():
    muts = runpy.run_path(sys.argv[1])["MUTANTS"]
    flt = sys.argv[2] if len(sys.argv) > 2 else ""
    tier = os.environ.get("MUT_TIER", "quick")
    sync()
    for name, ids, path, old, new in muts:
        if flt and flt not in name:
            continue
        full = f"{W}/repo/{path}"
        src = open(full).read()
        if src.count(old) != 1:
            print(f"SKIP {name}: pattern occurs {src.count(old)} times", flush=True); continue
        open(full, "w").write(src.replace(old, new))
        try:
            ok, err = build()
            if not ok:
                print(f"NOBUILD {name}: {err[-400:]}", flush=True); continue
            for pid in ids.split(","):
                t = time.time()
                env = dict(os.environ, VERIF_HOME=f"{W}/home")
                r = subprocess.run([f"{W}/target/release/verif", "run", pid, tier], capture_output=True, text=True, env=env)
                tail = [l for l in r.stdout.splitlines() if l.startswith(("violation kind", "violation detail", "INCONCLUSIVE", "OK"))]
                verdict = {0: "SURVIVED", 1: "KILLED"}.get(r.returncode, f"EXIT{r.returncode}")
                print(f"{verdict} {name} {pid} ({time.time()-t:.0f}s) :: " + " | ".join(tail)[:400], flush=True)
        finally:
            open(full, "w").write(src)
main()
