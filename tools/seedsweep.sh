#!/bin/bash
# tools/seedsweep.sh [jobs] [name-regex]  — run every seeded change under /verif/seeded against the check of its
# own property (quick tier) in scratch copies /tmp/seedsweep<k>; prints one CAUGHT/MISSED line each.
# Exceptions: C14-r3 and C05-r5 are capacity/expiry defects (checked with C07), C12-r3 is outside the listed statements.
J=${1:-3}
cd /verif
ls seeded | sort | grep -E "${2:-.}" > /tmp/seedsweep.list
run_one() {
  k=$1; name=$2
  id=${name%%-*}
  case $name in C14-r3|C05-r5) id=C07;; C12-r3) echo "SKIP seed=$name (outside the statements)"; return;; esac
  SEEDWORK=/tmp/seedsweep$k python3 tools/seedrun.py $name $id 2>&1 | tail -1 | cut -c1-260
}
export -f run_one
for k in $(seq 1 $J); do
  ( awk -v k=$k -v j=$J 'NR%j==k%j' /tmp/seedsweep.list | while read n; do run_one $k $n; done ) &
done
wait
for k in $(seq 1 $J); do rm -rf /tmp/seedsweep$k; done
rm -f /tmp/seedsweep.list
