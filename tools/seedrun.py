#!/usr/bin/env python3
"""tools/seedrun.py <seed-name> <ID[,ID..]> [tier]  — run checks against a seeded change without touching /repo:
applies /verif/seeded/<seed-name>/patch.diff to the scratch copy /tmp/mutwork/repo, builds the scratch harness, runs."""
import os, subprocess, sys, time
sys.path.insert(0, os.path.dirname(__file__))
W = os.environ.get("SEEDWORK", "/tmp/seedwork")
def sh(cmd, **kw):
    return subprocess.run(cmd, shell=True, capture_output=True, text=True, **kw)
name, ids = sys.argv[1], sys.argv[2]
tier = sys.argv[3] if len(sys.argv) > 3 else "quick"
os.makedirs(W + "/home", exist_ok=True)
sh(f"rsync -a --delete --exclude target --exclude .git /repo/ {W}/repo/")
sh(f"rsync -a --delete --exclude target /verif/harness/ {W}/harness/")
sh(f"rsync -a --delete /verif/corpus/ {W}/home/corpus/; cp /verif/known_findings.json {W}/home/")
c = open(f"{W}/harness/Cargo.toml").read().replace('path = "/repo"', f'path = "{W}/repo"')
open(f"{W}/harness/Cargo.toml", "w").write(c)
c = open(f"{W}/harness/.cargo/config.toml").read().replace("/verif/target", f"{W}/target")
open(f"{W}/harness/.cargo/config.toml", "w").write(c)
r = sh(f"patch -p1 --no-backup-if-mismatch < /verif/seeded/{name}/patch.diff", cwd=f"{W}/repo")
if r.returncode != 0:
    print("PATCH FAILED", r.stdout, r.stderr); sys.exit(2)
r = sh("CARGO_NET_OFFLINE=true cargo build --release --quiet", cwd=f"{W}/harness")
if r.returncode != 0:
    print("NOBUILD", r.stderr[-1500:]); sys.exit(2)
for pid in ids.split(","):
    t = time.time()
    env = dict(os.environ, VERIF_HOME=f"{W}/home")
    r = subprocess.run([f"{W}/target/release/verif", "run", pid, tier], capture_output=True, text=True, env=env)
    tail = [l for l in r.stdout.splitlines() if l.startswith(("violation kind", "violation detail", "INCONCLUSIVE", "OK"))]
    verdict = {0: "MISSED", 1: "CAUGHT"}.get(r.returncode, f"EXIT{r.returncode}")
    print(f"{verdict} seed={name} check={pid} tier={tier} ({time.time()-t:.0f}s) :: " + " | ".join(tail)[:500], flush=True)
