#!/usr/bin/env python3
"""Sensitivity helper: tools/mut.py <ID[,ID..]> <file-in-repo> <old> <new> [tier]
Applies a one-spot textual mutation to /repo (working tree only), runs ./check, always reverts.
Prints KILLED / SURVIVED."""
import subprocess, sys, time
ids, path, old, new = sys.argv[1:5]
tier = sys.argv[5] if len(sys.argv) > 5 else "quick"
full = "/repo/" + path
src = open(full).read()
assert subprocess.run(["git", "-C", "/repo", "status", "--porcelain", "--untracked-files=no"], capture_output=True, text=True).stdout.strip() == "", "repo not clean"
n = src.count(old)
if n != 1:
    print(f"pattern occurs {n} times in {path}"); sys.exit(3)
open(full, "w").write(src.replace(old, new))
try:
    for pid in ids.split(","):
        t = time.time()
        r = subprocess.run(["/verif/check", pid, tier], capture_output=True, text=True)
        tail = [l for l in r.stdout.splitlines() if l.startswith(("VIOLATION", "violation", "INCONCLUSIVE", "OK", "KNOWN"))]
        verdict = {0: "SURVIVED", 1: "KILLED"}.get(r.returncode, f"EXIT{r.returncode}")
        print(f"{verdict} {pid} ({time.time()-t:.0f}s) :: " + " | ".join(tail)[:600])
        if r.returncode not in (0, 1):
            print(r.stdout[-1500:], r.stderr[-1500:])
finally:
    subprocess.run(["git", "-C", "/repo", "checkout", "--", "."], check=True)
