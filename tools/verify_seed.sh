#!/bin/bash
# tools/verify_seed.sh <ID> [name]  — confirm a seeded change produced in /tmp/wt/<ID> and keep it as /verif/seeded/<name>
# Confirms: patch applies to a clean checkout of /repo HEAD; with it all 64 baseline tests pass and
# at least one demo test fails; without it every test (demo included) passes.
set -u
ID="$1"; NAME="${2:-$1}"; W=${WT:-/tmp/wt}/$ID; S=$W/seeded
export CARGO_NET_OFFLINE=true
cd "$W" || exit 2
[ -f "$S/patch.diff" ] || { echo "no patch.diff"; exit 2; }
git apply -R "$S/patch.diff" 2>/dev/null   # back to clean src (+ demo plumbing)
git apply --check "$S/patch.diff" || { echo "PATCH DOES NOT APPLY to the current tree"; exit 1; }
( cd /repo && git diff --quiet HEAD -- src ) || echo "note: /repo has local modifications"
OUT0=$(cargo test --offline --no-fail-fast 2>&1)
F0=$(echo "$OUT0" | grep -cE "^test .* \.\.\. FAILED"); OK0=$(echo "$OUT0" | grep -cE "^test .* \.\.\. ok")
ERR0=$(echo "$OUT0" | grep -cE "^error(\[|: could not compile)")
git apply "$S/patch.diff"
OUT1=$(cargo test --offline --no-fail-fast 2>&1)
ERR1=$(echo "$OUT1" | grep -cE "^error(\[|: could not compile)")
FAILED1=$(echo "$OUT1" | grep -E "^test .* \.\.\. FAILED" | sed -E 's/^test (.*) \.\.\. FAILED/\1/')
OK1=$(echo "$OUT1" | grep -cE "^test .* \.\.\. ok")
BASE_BROKEN=0
for t in $FAILED1; do
  if python3 - "$t" <<'PY'
import json,sys
b=json.load(open('/root/.vp/BASELINE.json'))['stable_pass']
t=sys.argv[1]
names=set(x.split('btdht::',1)[1] for x in b) | set(x.split('::')[-1] for x in b if '::tests::announce' in x)
sys.exit(0 if t in names else 1)
PY
  then BASE_BROKEN=$((BASE_BROKEN+1)); echo "baseline test broken: $t"; fi
done
NF1=$(echo "$FAILED1" | grep -c .)
echo "without change: ok=$OK0 failed=$F0 compile_errors=$ERR0 | with change: ok=$OK1 failed=$NF1 (baseline broken: $BASE_BROKEN) compile_errors=$ERR1"
echo "failing with change: $(echo $FAILED1 | head -c 300)"
if [ "$F0" = 0 ] && [ "$ERR0" = 0 ] && [ "$ERR1" = 0 ] && [ "$OK0" -ge 65 ] && [ "$BASE_BROKEN" = 0 ] && [ "$NF1" -ge 1 ]; then
  mkdir -p /verif/seeded/$NAME && cp -r "$S"/* /verif/seeded/$NAME/ && echo "CONFIRMED -> /verif/seeded/$NAME"
else
  echo "NOT CONFIRMED"; exit 1
fi
