#!/bin/bash
# tools/sweep_sel.sh <tier> <seed> <ID...> — like sweep.sh for selected properties
cd "$(dirname "$0")/.." || exit 2
export CARGO_TARGET_DIR="$PWD/target-sweep" VERIF_HOME="$PWD/sweep-home"
mkdir -p "$VERIF_HOME"; cp -r corpus known_findings.json "$VERIF_HOME/" 2>/dev/null
tier="$1"; seed="$2"; shift 2
for p in "$@"; do
  t0=$(date +%s)
  out=$(VERIF_SEED=$seed VERIF_FUZZ_SECS=${VERIF_FUZZ_SECS:-300} ./check $p $tier 2>&1); rc=$?
  echo "seed=$seed tier=$tier $p rc=$rc $(( $(date +%s) - t0 ))s :: $(echo "$out" | grep -E "^(VIOLATION|violation kind|violation detail|INCONCLUSIVE|KNOWN|\[C)" | tr '\n' ' ' | cut -c1-600)"
done
