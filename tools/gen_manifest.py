#!/usr/bin/env python3
"""Regenerates /verif/MANIFEST.json. Edit CHECKS below, then run this script."""
import json, subprocess

HOOK_COMMITS = ["a533a9a", "b3b1c60"]
FIX_COMMITS = ["ce0eac5", "ddff033", "c099f35", "5a5e3db", "bc61b3d", "167be66", "2a732e9"]

# id -> (level text, level note, technique); only ids listed here are claimed
CHECKS = {
    "C01": ("Networks of 2..9 real nodes (only real nodes) over hours and days of virtual time: generated ids, families, announce ports, latency tables (round trips < 1.5 s, plus a slow-pairs regime beyond the query timeout), structured renewal/expiry schedules, announcer/searcher schedules with overlaps and offsets on both sides of 24 h; must-find / must-not-find windows on the search streams.",
            "announce_peer datagrams need up to 1 s after the announcing search ends (asserted from 1.1 s); latencies below 1 s with round trips under the 1.5 s query timeout; long histories to ~6 days; quick tier uses <= 4 nodes for day-long cases.",
            "property-based testing (proptest) of end-to-end histories on a simulated network with a virtual clock"),
    "C02": ("Worlds of 1..1000 omniscient scripted nodes (uniform / adversarially clustered ids) and worlds of 300..1500 nodes answering from Kademlia-like limited knowledge (multi-hop searches), one real searcher; announce targets compared with the independently computed 8 XOR-closest nodes (limited knowledge: closest among the nodes that answered), per-announce field and token checks, multiset equality of the stream with all delivered answers' values.",
            "Benign network as the property presupposes (every answer within 1 s, truthful closest-node lists).",
            "property-based testing (proptest) against an independent reference computation over the whole world"),
    "C03": ("Hostile networks: per-datagram drop/delay/duplicate tables, hostile node lists, 1..3 concurrent searches and an attacker injecting forged responses derived from observed transaction ids; provenance of every yielded address and every announce decided from the complete wire log.",
            "Outstanding-query windows follow the documented 1.5 s timeout / end-game; +-2 ms at expiries either way; source address of a response is not part of the property.",
            "fault-injection property testing (proptest) with a history invariant over the wire log"),
    "C04": ("Scripted contacts and chains of ever closer nodes answering around the 1.5 s timeout, errors, duplicates, silence, send failures, no-good-node and dead-node cases; virtual-time bounds on stream close in both directions.",
            "eps = 100 virtual ms; searches are issued on a bootstrapped node (C16 covers earlier ones).",
            "property-based testing (proptest) of answer/timeout schedules with virtual-time oracles"),
    "C10": ("Per-contact event histories (answer, mention, query received, query sent, time steps around 15 min and up to 2^40 ms, one id under two addresses) on the real table against an independent status model after every event; wire stage: maintenance worlds with the event history extracted from the wire log.",
            "Exact 15-minute coincidences skipped; wire stage asserts only what is robust to the bootstrap initial round not counting as a query.",
            "model-based property testing (proptest histories vs. reference status model)"),
    "C11": ("Hours-long runs (30 min..3 h, thorough 12 h) of a real node with 1..8 scripted contacts that always answer or fall silent at generated times, single-contact and well-connected regimes, hearsay contacts with unsendable addresses, with/without user searches; deadlines on samples of load_contacts() every 2 s and find_node probes every 30 s.",
            "Loss-free, round trips < 400 ms, no bucket full; a query from a contact counts as sign of life like an answer; one known finding (transient loss while two queries are in flight) is matched by exact signature.",
            "property-based testing (proptest) of long histories with deadline oracles"),
    "C12": ("Unsolicited queries and responses with foreign transaction ids (short, long, unused action id, real id plus extra bytes, truncated, real id with a foreign leading byte, a sweep of all never-transmitted action prefixes after the contacts aged) injected at generated times into a node that is bootstrapping/idle/searching, hostile node lists in genuine answers; membership invariants on contacts, search results and find_node probe answers.",
            "Forged action ids >= 2^20 are certainly unused in a short run.",
            "fault-injection property testing (proptest) with attributable unique markers"),
    "C05": ("One real node on a simulated datagram network receives generated sequences of well-formed queries (all kinds/argument combinations, tids 0..32 B incl. tids echoed from the node's own in-flight requests) interleaved with non-queries; per-datagram reply discipline is decided from the wire log with an independent codec; a second stage repeats the discipline on worlds with up to 500 stored peers and up to 180 table nodes.",
            "Replies are attributed by source address within the same virtual millisecond; the simulated network replaces UDP; residual thread_rng/HashSet-order nondeterminism is covered by confirmation re-runs.",
            "property-based testing (proptest): generated datagram histories against a real node, per-datagram oracle + global reply count"),
    "C06": ("Generated get_peers/announce histories over hours with gaps hugging the 10/20/30-minute rotation arithmetic, and structured rounds around one lazy rotation, against an interval model of token validity; both on the re-exported TokenStore and on a real node over the wire (incl. restarts and cross-IP, never-issued, wrong-length tokens, right tokens with extra bytes or cut short).",
            "Virtual clock hook; 2^-31 chance that a random token validates (handled by confirmation); between 10 and 30 minutes either answer is accepted.",
            "model-based property testing (proptest histories vs. reference interval model)"),
    "C07": ("Generated announce/get_peers histories over days (renewals, 24 h -/+ ms, bulk announces crossing the 500-pair limit, both families) against a reference map model, on the re-exported AnnounceStorage and on a real node over the wire.",
            "Exact-24h ages are not asserted; equality of returned sets is asserted only when the full set fits a 1500-byte reply.",
            "model-based property testing (proptest histories vs. reference map)"),
    "C08": ("Generated operation sequences (offers as good/hearsay, responses through add_nodes, repeats, clashes, queries sent/received, time steps; optional prefixes that grow the table to up to 160 buckets) on the real RoutingTable; shape invariants over a full dump after every op and pre/post transition rules for every offer.",
            "Uses cfg-guarded re-exports; router set fixed before the first offer; standing read under the virtual clock.",
            "stateful property testing (proptest op sequences + invariant and transition-rule oracle)"),
    "C09": ("Table states reached by generated operation sequences x generated targets: closest_nodes is multiset-equal to the live nodes of a full dump and its first 8 per family contain every node sharing a longer prefix with the target; wire stage probes a real node with find_node/get_peers and 161 dump probes.",
            "Component stage through re-exports; wire stage through the simulated network.",
            "property-based testing (proptest) with a set/multiset oracle from a full table dump"),
    "C13": ("Generated KRPC messages over the whole field space; canonical encoding by an independent codec; decode(canon)==model, decode(canon).encode()==canon, permuted/unknown-key variants decode equal, negative classes rejected; plus a libFuzzer round-trip target.",
            "Trusts the harness's own codec (self-checked on BEP5 examples); unknown keys are UTF-8 names outside BEP5/32.",
            "property-based testing (proptest) with round-trip/differential/metamorphic oracles + coverage-guided fuzzing (libFuzzer)"),
    "C14": ("Structure-aware mutations of valid datagrams (length prefixes of every magnitude, integer edge texts, nesting to 1500 levels, truncation, type swaps, fields inflated to the datagram limit, ...) decoded in supervised worker processes on a 2 MiB stack under a counting allocator; datagram sequences (optionally with every datagram delivered 2-3 times) injected into a live node followed by liveness checks; plus a libFuzzer decode target.",
            "Allocation bound 256 KiB single / 8 MiB total per input; opt-level 2 build with debug assertions; worker death attributed to the input in flight.",
            "structure-aware fuzzing / property-based testing (proptest mutators, supervised workers) + libFuzzer"),
    "C15": ("Generated builder configurations (routers/nodes overlap, up to 40 contacts, silent/error/garbage/unsendable contacts, busy event loop), outage patterns up to 2 h incl. flapping, and bootstrapped() callers at generated times; resolution-time bounds and API liveness under virtual time.",
            "Routers are literal ip:port strings; 'about 11 minutes' = 660 virtual seconds.",
            "property-based testing (proptest) of configurations x fault schedules with virtual-time oracles"),
    "C16": ("Networks of real nodes with a stored peer, and scripted worlds in which the contacts leading to the peers answer late in the bootstrap; a fresh node issues searches at generated times relative to its bootstrap (also under a busy event loop, initial outages); metamorphic comparison with a twin node's search issued right after bootstrapped().",
            "Twin node on the same simulated network provides the reference result.",
            "property-based testing (proptest) with a metamorphic oracle"),
    "C17": ("One real node with 0..500 stored peers (v4/v6), 0..180 table nodes of both families (incl. large single-family tables), queries of every kind/want/tid length; every datagram the node emits is measured on the simulated wire.",
            "tid lengths up to 32 bytes as quantified.",
            "property-based testing (proptest) with a size oracle over the wire log"),
    "C18": ("Runs of 10 min..2 h (thorough 12 h) of a real node with 1..20 contacts and outages; hook counters sampled every 2.5 virtual seconds; windowed rate bound over all sample pairs and at most one pending refresh check.",
            "Counters come from cfg(btdht_verif) hooks.",
            "property-based testing (proptest) of long histories with a windowed-rate invariant"),
    "C19": ("Id streams through the 2^24 wrap and around the 2048-block edges, up to 6200 activity prefixes from one generator; wire stage checks tids of all queries in long runs (incl. a contact listed in plain and IPv4-mapped spelling).",
            "The 2^40 action-id wrap is out of reach.",
            "property-based testing (proptest) with uniqueness/prefix invariants (bitset over 2^24 ids)"),
    "C20": ("Every one of the 2^20 IPv4 mask classes enumerated per sweep, random/edge IPv6 /64 prefixes, many draws of the internal randomness; oracle is an independent BEP42 validator.",
            "Trusts the harness's own CRC32-C/BEP42 validator (self-checked on the five published vectors). IPv6 space is sampled, not enumerated.",
            "property-based testing (proptest) against an independent reference validator"),
}

ALL = ["C%02d" % i for i in range(1, 21)]

def main():
    checks = []
    for pid in ALL:
        if pid not in CHECKS:
            continue
        text, note, tech = CHECKS[pid]
        checks.append({
            "property_id": pid,
            "quick_cmd": f"./check {pid} quick",
            "thorough_cmd": f"./check {pid} thorough",
            "evidence_file": f"/verif/evidence/{pid}.json",
            "replay_cmd_template": f"./check {pid} --replay {{path}}",
            "engine": "verif",
            "level_claimed": {"category": "exploration", "text": text, "design_ref": f"DESIGN.md#{pid.lower()}"},
            "level_note": note,
            "technique": tech,
        })
    na = [{"property_id": p, "reason": "check not built yet in this session (planned in DESIGN.md section 5; the technique applies)"} for p in ALL if p not in CHECKS]
    m = {
        "version": 1,
        "setup_cmd": "cd /verif/harness && CARGO_NET_OFFLINE=true cargo build --release",
        "hooks": {
            "guard": "--cfg btdht_verif",
            "enable": "rustflags in /verif/harness/.cargo/config.toml (--cfg btdht_verif --cfg tokio_unstable); /repo is a path dependency of the harness, so every check rebuilds it from the current working tree",
            "baseline_off_cmd": "cd /repo && cargo test --workspace --no-fail-fast --offline",
            "source_commits": HOOK_COMMITS,
            "add_only": True,
        },
        "engines": [
            {"name": "verif", "path": "/verif/harness", "serves_properties": sorted(CHECKS), "kind_free_text": "proptest TestRunner driven from a binary: seeded by VERIF_SEED, 16 shards, shrinking, confirmation re-runs, replay files, known-finding matching, evidence; simulated datagram network + virtual clock for system-level properties"},
            {"name": "fuzz", "path": "/verif/fuzz", "serves_properties": [p for p in ("C13", "C14") if p in CHECKS], "kind_free_text": "cargo-fuzz / libFuzzer targets with the semantic oracle inside the target"},
        ],
        "checks": checks,
        "not_applicable": na,
        "notes": "exit codes: 0 held, 1 VIOLATION, 2 harness trouble/inconclusive (never a verdict). Known findings: /verif/known_findings.json.",
    }
    json.dump(m, open("/verif/MANIFEST.json", "w"), indent=1)
    print("claimed:", len(checks), "not_applicable:", len(na))

main()
