#!/usr/bin/env python3
"""Regenerates /verif/MANIFEST.json. Edit CHECKS below, then run this script."""
import json, subprocess

HOOK_COMMITS = ["a533a9a", "b3b1c60"]

# id -> (level text, level note, technique); only ids listed here are claimed
CHECKS = {
    "C20": (
        "Generated-input search: every one of the 2^20 IPv4 mask classes enumerated per sweep, random/edge IPv6 /64 prefixes, many draws of the internal randomness; oracle is an independent BEP42 validator.",
        "Trusts the harness's own CRC32-C/BEP42 validator (self-checked on the five published vectors). IPv6 space is sampled, not enumerated.",
        "property-based testing (proptest) against an independent reference validator",
    ),
}

ALL = ["C%02d" % i for i in range(1, 21)]

def main():
    checks = []
    for pid in ALL:
        if pid not in CHECKS:
            continue
        text, note, tech = CHECKS[pid]
        checks.append({
            "property_id": pid,
            "quick_cmd": f"./check {pid} quick",
            "thorough_cmd": f"./check {pid} thorough",
            "evidence_file": f"/verif/evidence/{pid}.json",
            "replay_cmd_template": f"./check {pid} --replay {{path}}",
            "engine": "verif",
            "level_claimed": {"category": "exploration", "text": text, "design_ref": f"DESIGN.md#{pid.lower()}"},
            "level_note": note,
            "technique": tech,
        })
    na = [{"property_id": p, "reason": "check not built yet in this session (planned in DESIGN.md section 5; the technique applies)"} for p in ALL if p not in CHECKS]
    m = {
        "version": 1,
        "setup_cmd": "cd /verif/harness && CARGO_NET_OFFLINE=true cargo build --release",
        "hooks": {
            "guard": "--cfg btdht_verif",
            "enable": "rustflags in /verif/harness/.cargo/config.toml (--cfg btdht_verif --cfg tokio_unstable); /repo is a path dependency of the harness, so every check rebuilds it from the current working tree",
            "baseline_off_cmd": "cd /repo && cargo test --workspace --no-fail-fast --offline",
            "source_commits": HOOK_COMMITS,
            "add_only": True,
        },
        "engines": [
            {"name": "verif", "path": "/verif/harness", "serves_properties": sorted(CHECKS), "kind_free_text": "proptest TestRunner driven from a binary: seeded by VERIF_SEED, 16 shards, shrinking, confirmation re-runs, replay files, known-finding matching, evidence; simulated datagram network + virtual clock for system-level properties"},
            {"name": "fuzz", "path": "/verif/fuzz", "serves_properties": [p for p in ("C13", "C14") if p in CHECKS], "kind_free_text": "cargo-fuzz / libFuzzer targets with the semantic oracle inside the target"},
        ],
        "checks": checks,
        "not_applicable": na,
        "notes": "exit codes: 0 held, 1 VIOLATION, 2 harness trouble/inconclusive (never a verdict). Known findings: /verif/known_findings.json.",
    }
    json.dump(m, open("/verif/MANIFEST.json", "w"), indent=1)
    print("claimed:", len(checks), "not_applicable:", len(na))

main()
