use verif::{bcodec, engine, models, props, sim};

use engine::Tier;

#[global_allocator]
static GLOBAL: verif::alloc_count::Counting = verif::alloc_count::Counting;

fn usage() -> ! {
    eprintln!("usage: verif run <ID> [quick|thorough] | verif replay <ID> <file> | verif selftest");
    std::process::exit(2)
}

fn selftest() -> Result<(), String> {
    bcodec::selftest()?;
    models::bep42::selftest()?;
    Ok(())
}

fn main() {
    // Keep panic messages of expected (caught) panics out of the output unless asked for.
    if std::env::var_os("VERIF_PANIC_TRACE").is_none() {
        std::panic::set_hook(Box::new(|_| {}));
    }
    let args: Vec<String> = std::env::args().collect();
    let code = match args.get(1).map(|s| s.as_str()) {
        Some("selftest") => match selftest() {
            Ok(()) => {
                println!("selftest ok");
                0
            }
            Err(e) => {
                println!("INCONCLUSIVE: selftest failed: {e}");
                2
            }
        },
        Some("run") => {
            let id = args.get(2).unwrap_or_else(|| usage());
            let tier = match args
                .get(3)
                .cloned()
                .or_else(|| std::env::var("VERIF_TIER").ok())
                .as_deref()
            {
                Some("thorough") => Tier::Thorough,
                _ => Tier::Quick,
            };
            let seed: u64 = std::env::var("VERIF_SEED")
                .ok()
                .and_then(|s| s.trim().parse::<i64>().ok())
                .map(|v| v as u64)
                .unwrap_or(0);
            if let Err(e) = selftest() {
                println!("INCONCLUSIVE: selftest failed: {e}");
                std::process::exit(2);
            }
            match props::spec(id) {
                Some(spec) => engine::run_property(spec, tier, seed),
                None => {
                    println!("INCONCLUSIVE: unknown property {id}");
                    2
                }
            }
        }
        Some("worker") => {
            let id = args.get(2).unwrap_or_else(|| usage());
            let stage = args.get(3).unwrap_or_else(|| usage());
            match props::spec(id) {
                Some(spec) => match spec.stages.iter().find(|s| s.name() == stage.as_str()) {
                    Some(st) => engine::worker_main(st.as_ref()),
                    None => 2,
                },
                None => 2,
            }
        }
        Some("c03-debug") => {
            let doc: serde_json::Value = serde_json::from_str(&std::fs::read_to_string(&args[2]).unwrap()).unwrap();
            props::c03::debug_case(&doc["case"].to_string());
            0
        }
        Some("maint-debug") => {
            let doc: serde_json::Value = serde_json::from_str(&std::fs::read_to_string(&args[2]).unwrap()).unwrap();
            props::maint::debug_timeline(&doc["case"].to_string(), args[3].parse().unwrap(), args[4].parse().unwrap(), args[5].parse().unwrap());
            0
        }
        Some("probe") => {
            probe_idle(args.get(2).and_then(|s| s.parse().ok()).unwrap_or(24));
            0
        }
        Some("replay") => {
            let id = args.get(2).unwrap_or_else(|| usage());
            let path = args.get(3).unwrap_or_else(|| usage());
            // raw (non-JSON) files are fuzzer artifacts: wrap the bytes into a case
            let mut path = std::path::PathBuf::from(path);
            let raw = std::fs::read(&path).unwrap_or_default();
            if serde_json::from_slice::<serde_json::Value>(&raw).is_err() && (id == "C13" || id == "C14") {
                let stage = if id == "C13" { "bytes-roundtrip" } else { "decode" };
                let doc = serde_json::json!({"property": id, "stage": stage, "kind": "fuzz-artifact",
                    "case": {"base": "Empty", "muts": [{"InsertRaw": {"pos": 0, "bytes": bcodec::hex(&raw)}}]}});
                let out = engine::verif_dir().join("replays");
                let _ = std::fs::create_dir_all(&out);
                path = out.join(format!("{id}-artifact-{:016x}.json", engine::fp(&bcodec::hex(&raw))));
                let _ = std::fs::write(&path, serde_json::to_string_pretty(&doc).unwrap());
            }
            match props::spec(id) {
                Some(spec) => engine::replay_property(spec, &path),
                None => 2,
            }
        }
        _ => usage(),
    };
    std::process::exit(code);
}

#[allow(dead_code)]
pub fn probe_idle(hours: u64) {
    use std::time::Duration;
    let t = std::time::Instant::now();
    let rt = sim::paused_rt(1);
    rt.block_on(async {
        let solo = props::single::Solo::start(false, [1; 20]);
        tokio::time::sleep(Duration::from_secs(hours * 3600)).await;
        println!("log len {}", solo.net.log_len());
    });
    println!("idle {hours} h: {:?}", t.elapsed());
}
