//! Property-testing engine: seeded, sharded proptest driver with counters, shrinking,
//! confirmation, known-finding matching, replay and evidence output.

use proptest::strategy::{BoxedStrategy, Strategy};
use proptest::test_runner::{
    Config, RngAlgorithm, TestCaseError, TestError, TestRng, TestRunner,
};
use serde::{de::DeserializeOwned, Deserialize, Serialize};
use serde_json::{json, Value};
use std::collections::{BTreeMap, HashSet};
use std::hash::{Hash, Hasher};
use std::panic::{catch_unwind, AssertUnwindSafe};
use std::path::{Path, PathBuf};
use std::sync::atomic::{AtomicBool, AtomicU64, Ordering};
use std::sync::{Arc, Mutex};
use std::time::Instant;

pub const VERIF_DIR_DEFAULT: &str = "/verif";

pub fn verif_dir() -> PathBuf {
    PathBuf::from(std::env::var("VERIF_HOME").unwrap_or_else(|_| VERIF_DIR_DEFAULT.to_string()))
}

#[derive(Clone, Copy, Debug, PartialEq, Eq)]
pub enum Tier {
    Quick,
    Thorough,
}

impl Tier {
    pub fn name(self) -> &'static str {
        match self {
            Tier::Quick => "quick",
            Tier::Thorough => "thorough",
        }
    }
    pub fn pick<T>(self, quick: T, thorough: T) -> T {
        match self {
            Tier::Quick => quick,
            Tier::Thorough => thorough,
        }
    }
}

#[derive(Clone, Debug, Serialize, Deserialize)]
pub enum Verdict {
    Pass,
    /// `kind` is the signature used for known-finding matching; `detail` is free text.
    Violation { kind: String, detail: String },
}

#[derive(Clone, Debug, Serialize, Deserialize)]
pub struct Outcome {
    pub verdict: Verdict,
    pub nontrivial: bool,
    pub labels: Vec<String>,
}

impl Outcome {
    pub fn pass(nontrivial: bool) -> Self {
        Outcome { verdict: Verdict::Pass, nontrivial, labels: vec![] }
    }
    pub fn violation(kind: impl Into<String>, detail: impl Into<String>) -> Self {
        Outcome {
            verdict: Verdict::Violation { kind: kind.into(), detail: detail.into() },
            nontrivial: true,
            labels: vec![],
        }
    }
    pub fn label(mut self, l: impl Into<String>) -> Self {
        self.labels.push(l.into());
        self
    }
    pub fn labels<I: IntoIterator<Item = String>>(mut self, l: I) -> Self {
        self.labels.extend(l);
        self
    }
    pub fn is_violation(&self) -> bool {
        matches!(self.verdict, Verdict::Violation { .. })
    }
}

/// One generated-input check. A property consists of one or more stages.
pub trait Stage: Sync + Send + 'static {
    type Case: Serialize + DeserializeOwned + std::fmt::Debug + Clone + Send + 'static;
    fn name(&self) -> &'static str;
    /// Number of generated cases for the tier.
    fn cases(&self, tier: Tier) -> u32;
    fn strategy(&self, tier: Tier) -> BoxedStrategy<Self::Case>;
    fn run(&self, case: &Self::Case) -> Outcome;
    /// How cases are generated and what makes one non-trivial.
    fn rule(&self) -> String;
    /// Cases compared as equal for the `distinct` count: default is the serialised case.
    fn fingerprint(&self, case: &Self::Case) -> u64 {
        fp(&serde_json::to_string(case).unwrap_or_default())
    }
    /// A compact rendering of a case for the evidence samples (default: the case itself).
    fn sample(&self, case: &Self::Case) -> Value {
        serde_json::to_value(case).unwrap_or(Value::Null)
    }
    /// Per-case wall-clock limit (seconds) before the watchdog declares the run inconclusive.
    fn watchdog_secs(&self, tier: Tier) -> u64 {
        // generous: cases take milliseconds to seconds; on a heavily loaded machine a case of a
        // system stage was once seen to take > 300 s of wall clock
        tier.pick(900, 3600)
    }
    fn max_shards(&self) -> usize {
        16
    }
    /// Run cases in a supervised child process (survives aborts, stack overflows, allocation
    /// failures of the code under test; they become `worker-death` outcomes).
    fn isolate(&self) -> bool {
        true
    }
    /// Signature of a worker death for this case (refines the generic `worker-death`).
    fn classify_death(&self, _case: &Self::Case) -> String {
        "worker-death".to_string()
    }
    /// Extra key/values to put into the evidence (e.g. exhaustive sub-space notes).
    fn extra(&self) -> Value {
        Value::Null
    }
}

pub fn fp(s: &str) -> u64 {
    let mut h = std::collections::hash_map::DefaultHasher::new();
    s.hash(&mut h);
    h.finish()
}

pub fn splitmix(mut x: u64) -> u64 {
    x = x.wrapping_add(0x9E3779B97F4A7C15);
    let mut z = x;
    z = (z ^ (z >> 30)).wrapping_mul(0xBF58476D1CE4E5B9);
    z = (z ^ (z >> 27)).wrapping_mul(0x94D049BB133111EB);
    z ^ (z >> 31)
}

fn shard_seed(seed: u64, prop: &str, stage: &str, shard: usize) -> [u8; 32] {
    let mut x = splitmix(seed ^ fp(prop).rotate_left(17) ^ fp(stage).rotate_left(41) ^ (shard as u64) << 7);
    let mut out = [0u8; 32];
    for chunk in out.chunks_mut(8) {
        x = splitmix(x);
        chunk.copy_from_slice(&x.to_le_bytes());
    }
    out
}

// ---------------------------------------------------------------------------------------------
// Known findings

#[derive(Clone, Debug, Deserialize)]
pub struct Finding {
    pub property: String,
    /// "known" (still present, suppressed) or "fixed" (repaired; suppresses nothing)
    pub status: String,
    /// exact signature: "<stage>/<kind>"
    pub signature: String,
    pub what: String,
    #[serde(default)]
    pub commit: Option<String>,
}

#[derive(Clone, Debug, Deserialize, Default)]
pub struct Findings {
    #[serde(default)]
    pub findings: Vec<Finding>,
}

pub fn load_findings() -> Findings {
    let p = verif_dir().join("known_findings.json");
    match std::fs::read_to_string(&p) {
        Ok(s) => serde_json::from_str(&s).unwrap_or_else(|e| {
            eprintln!("harness: cannot parse {}: {e}", p.display());
            std::process::exit(2)
        }),
        Err(_) => Findings::default(),
    }
}

fn known_match<'a>(f: &'a Findings, prop: &str, stage: &str, kind: &str) -> Option<&'a Finding> {
    let sig = format!("{stage}/{kind}");
    f.findings
        .iter()
        .find(|x| x.property == prop && x.status == "known" && x.signature == sig)
}

// ---------------------------------------------------------------------------------------------
// Reports

#[derive(Debug, Default)]
pub struct StageReport {
    pub stage: String,
    pub rule: String,
    pub evaluations: u64,
    pub distinct: u64,
    pub distinct_nontrivial: u64,
    pub labels: BTreeMap<String, u64>,
    pub samples: Vec<Value>,
    pub corpus_replayed: u64,
    pub known_hits: BTreeMap<String, u64>,
    pub unconfirmed: Vec<Value>,
    pub violation: Option<ViolationReport>,
    pub extra: Value,
    pub wall_s: f64,
}

#[derive(Debug, Clone)]
pub struct ViolationReport {
    pub stage: String,
    pub kind: String,
    pub detail: String,
    pub case: Value,
    pub replay_path: Option<PathBuf>,
}

struct Shared {
    evaluations: u64,
    seen: HashSet<u64>,
    seen_nt: HashSet<u64>,
    labels: BTreeMap<String, u64>,
    samples: Vec<Value>,
    known_hits: BTreeMap<String, u64>,
}

/// Object-safe stage interface used by the per-property drivers.
pub trait DynStage: Sync + Send {
    fn name(&self) -> &'static str;
    fn drive(&self, prop: &str, tier: Tier, seed: u64, findings: &Findings) -> StageReport;
    fn replay_value(&self, case: &Value) -> Result<Outcome, String>;
    /// like replay_value, but in a supervised worker when the stage asks for isolation
    fn exec_value(&self, prop: &str, case: &Value, worker: &mut Option<Worker>) -> Result<Outcome, String>;
}

static WATCH_SLOTS: [AtomicU64; 64] = {
    const Z: AtomicU64 = AtomicU64::new(0);
    [Z; 64]
};
static WATCH_LIMIT: AtomicU64 = AtomicU64::new(300);
static WATCH_STARTED: AtomicBool = AtomicBool::new(false);

fn now_ms(base: Instant) -> u64 {
    base.elapsed().as_millis() as u64 + 1
}

fn start_watchdog(base: Instant) {
    if WATCH_STARTED.swap(true, Ordering::SeqCst) {
        return;
    }
    std::thread::spawn(move || loop {
        std::thread::sleep(std::time::Duration::from_millis(500));
        let now = now_ms(base);
        let limit = WATCH_LIMIT.load(Ordering::Relaxed) * 1000;
        for (i, s) in WATCH_SLOTS.iter().enumerate() {
            let st = s.load(Ordering::Relaxed);
            if st != 0 && now.saturating_sub(st) > limit {
                println!(
                    "INCONCLUSIVE: watchdog: a case on shard {i} exceeded {} s wall clock (harness trouble, not a verdict)",
                    limit / 1000
                );
                kill_all_workers();
                std::process::exit(2);
            }
        }
    });
}

// ---------------------------------------------------------------------------------------------
// Supervised workers

pub struct Worker {
    child: std::process::Child,
    stdin: std::process::ChildStdin,
    stdout: std::io::BufReader<std::process::ChildStdout>,
}

static WORKER_PIDS: Mutex<Vec<u32>> = Mutex::new(Vec::new());

fn kill_all_workers() {
    for pid in WORKER_PIDS.lock().unwrap().iter() {
        let _ = std::process::Command::new("kill").arg("-9").arg(pid.to_string()).status();
    }
}

impl Worker {
    fn spawn(prop: &str, stage: &str) -> Worker {
        use std::process::{Command, Stdio};
        let exe = std::env::current_exe().expect("current_exe");
        // address-space limit so that runaway allocation becomes an abort of the worker, not an
        // OOM kill of the whole check
        let mut child = Command::new("sh")
            .arg("-c")
            .arg("ulimit -v 12582912 2>/dev/null; exec \"$0\" \"$@\"")
            .arg(exe)
            .args(["worker", prop, stage])
            .stdin(Stdio::piped())
            .stdout(Stdio::piped())
            .stderr(Stdio::null())
            .spawn()
            .expect("spawn worker");
        WORKER_PIDS.lock().unwrap().push(child.id());
        let stdin = child.stdin.take().unwrap();
        let stdout = std::io::BufReader::new(child.stdout.take().unwrap());
        Worker { child, stdin, stdout }
    }

    /// Ok(outcome) or Err(description of how the worker died)
    fn run(&mut self, case_json: &str) -> Result<Outcome, String> {
        use std::io::{BufRead, Write};
        let sent = self.stdin.write_all(case_json.as_bytes()).and_then(|_| self.stdin.write_all(b"\n")).and_then(|_| self.stdin.flush());
        let mut line = String::new();
        let got = if sent.is_ok() { self.stdout.read_line(&mut line).unwrap_or(0) } else { 0 };
        if got == 0 {
            use std::os::unix::process::ExitStatusExt;
            let st = self.child.wait();
            let how = match st {
                Ok(s) => match (s.signal(), s.code()) {
                    (Some(sig), _) => format!("killed by signal {sig}"),
                    (_, Some(c)) => format!("exited with status {c}"),
                    _ => "died".to_string(),
                },
                Err(e) => format!("wait failed: {e}"),
            };
            return Err(how);
        }
        serde_json::from_str::<Outcome>(line.trim()).map_err(|e| format!("unreadable worker answer: {e}"))
    }
}

impl Drop for Worker {
    fn drop(&mut self) {
        let _ = self.child.kill();
        let _ = self.child.wait();
        let id = self.child.id();
        WORKER_PIDS.lock().unwrap().retain(|p| *p != id);
    }
}

/// Child-process side: read one JSON case per line, answer one JSON outcome per line.
pub fn worker_main(stage: &dyn DynStage) -> i32 {
    use std::io::{BufRead, Write};
    let stdin = std::io::stdin();
    let stdout = std::io::stdout();
    for line in stdin.lock().lines() {
        let line = match line {
            Ok(l) => l,
            Err(_) => break,
        };
        if line.trim().is_empty() {
            continue;
        }
        let out = match serde_json::from_str::<Value>(&line) {
            Ok(v) => match stage.replay_value(&v) {
                Ok(o) => o,
                Err(e) => Outcome::violation("harness-bad-case", e),
            },
            Err(e) => Outcome::violation("harness-bad-case", e.to_string()),
        };
        let mut o = stdout.lock();
        let _ = writeln!(o, "{}", serde_json::to_string(&out).unwrap());
        let _ = o.flush();
    }
    0
}

fn run_case<S: Stage>(stage: &S, prop: &str, case: &S::Case, worker: &mut Option<Worker>) -> Outcome {
    if !stage.isolate() || std::env::var_os("VERIF_NO_ISOLATE").is_some() {
        return run_guarded(stage, case);
    }
    let js = serde_json::to_string(case).unwrap_or_default();
    if worker.is_none() {
        *worker = Some(Worker::spawn(prop, Stage::name(stage)));
    }
    match worker.as_mut().unwrap().run(&js) {
        Ok(o) => o,
        Err(how) => {
            *worker = None;
            Outcome::violation(stage.classify_death(case), format!("the process executing the case {how} (crash, abort, stack overflow or allocation failure in the code under test)"))
        }
    }
}

fn run_guarded<S: Stage>(stage: &S, case: &S::Case) -> Outcome {
    match catch_unwind(AssertUnwindSafe(|| stage.run(case))) {
        Ok(o) => o,
        Err(p) => {
            let msg = if let Some(s) = p.downcast_ref::<&str>() {
                s.to_string()
            } else if let Some(s) = p.downcast_ref::<String>() {
                s.clone()
            } else {
                "non-string panic".to_string()
            };
            Outcome::violation("panic", format!("panic while running the case: {msg}"))
        }
    }
}

impl<S: Stage> DynStage for S {
    fn name(&self) -> &'static str {
        Stage::name(self)
    }

    fn replay_value(&self, case: &Value) -> Result<Outcome, String> {
        let c: S::Case = serde_json::from_value(case.clone()).map_err(|e| e.to_string())?;
        Ok(run_guarded(self, &c))
    }

    fn exec_value(&self, prop: &str, case: &Value, worker: &mut Option<Worker>) -> Result<Outcome, String> {
        let c: S::Case = serde_json::from_value(case.clone()).map_err(|e| e.to_string())?;
        WATCH_LIMIT.store(self.watchdog_secs(Tier::Thorough), Ordering::Relaxed);
        start_watchdog(base_instant());
        WATCH_SLOTS[62].store(now_ms(base_instant()), Ordering::Relaxed);
        let o = run_case(self, prop, &c, worker);
        WATCH_SLOTS[62].store(0, Ordering::Relaxed);
        Ok(o)
    }

    fn drive(&self, prop: &str, tier: Tier, seed: u64, findings: &Findings) -> StageReport {
        let t0 = Instant::now();
        let total = self.cases(tier).max(1);
        let shards = (self.max_shards().min(16).min(total as usize)).max(1);
        WATCH_LIMIT.store(self.watchdog_secs(tier), Ordering::Relaxed);
        start_watchdog(base_instant());
        let shared = Arc::new(Mutex::new(Shared {
            evaluations: 0,
            seen: HashSet::new(),
            seen_nt: HashSet::new(),
            labels: BTreeMap::new(),
            samples: vec![],
            known_hits: BTreeMap::new(),
        }));
        let stop = Arc::new(AtomicBool::new(false));
        #[allow(clippy::type_complexity)]
        let failures: Arc<Mutex<Vec<(usize, S::Case, String, String, Option<S::Case>)>>> =
            Arc::new(Mutex::new(vec![]));
        let stage_name = Stage::name(self);

        std::thread::scope(|sc| {
            for shard in 0..shards {
                let n = total / shards as u32 + if (shard as u32) < total % shards as u32 { 1 } else { 0 };
                let shared = shared.clone();
                let stop = stop.clone();
                let failures = failures.clone();
                let me = self;
                std::thread::Builder::new()
                    .stack_size(64 << 20)
                    .name(format!("shard{shard}"))
                    .spawn_scoped(sc, move || {
                        let strategy = me.strategy(tier);
                        let mut cfg = Config::default();
                        cfg.cases = n;
                        cfg.failure_persistence = None;
                        cfg.max_shrink_iters = 4000;
                        cfg.max_shrink_time = 0;
                        cfg.max_local_rejects = 1 << 20;
                        cfg.max_global_rejects = 1 << 20;
                        cfg.verbose = 0;
                        cfg.result_cache = proptest::test_runner::noop_result_cache;
                        let rng = TestRng::from_seed(
                            RngAlgorithm::ChaCha,
                            &shard_seed(seed, prop, stage_name, shard),
                        );
                        let mut runner = TestRunner::new_with_rng(cfg, rng);
                        let worker: std::cell::RefCell<Option<Worker>> = std::cell::RefCell::new(None);
                        let failed = std::cell::Cell::new(false);
                        let deaths = std::cell::Cell::new(0u32);
                        let failed_at: std::cell::Cell<Option<Instant>> = std::cell::Cell::new(None);
                        let shrink_budget = std::time::Duration::from_secs(tier.pick(90, 600));
                        let last: std::cell::RefCell<Option<(String, String)>> =
                            std::cell::RefCell::new(None);
                        // the first failing case, before any shrinking
                        let first_case: std::cell::RefCell<Option<S::Case>> = std::cell::RefCell::new(None);
                        let res = runner.run(&strategy, |case| {
                            if stop.load(Ordering::Relaxed) && !failed.get() {
                                return Ok(());
                            }
                            // bound the shrinking work: after many worker deaths or a long time
                            // shrinking, treat further candidates as passing (keeps the last failing one)
                            if failed.get()
                                && (deaths.get() > 40
                                    || failed_at.get().map(|t| t.elapsed() > shrink_budget).unwrap_or(false))
                            {
                                return Ok(());
                            }
                            WATCH_SLOTS[shard].store(now_ms(base_instant()), Ordering::Relaxed);
                            let out = run_case(me, prop, &case, &mut worker.borrow_mut());
                            WATCH_SLOTS[shard].store(0, Ordering::Relaxed);
                            let mut known: Option<String> = None;
                            let mut viol: Option<(String, String)> = None;
                            if let Verdict::Violation { kind, detail } = &out.verdict {
                                if known_match(findings, prop, stage_name, kind).is_some() {
                                    known = Some(format!("{stage_name}/{kind}"));
                                } else {
                                    viol = Some((kind.clone(), detail.clone()));
                                }
                            }
                            if !failed.get() {
                                let f = me.fingerprint(&case);
                                let mut sh = shared.lock().unwrap();
                                sh.evaluations += 1;
                                sh.seen.insert(f);
                                if out.nontrivial && viol.is_none() && sh.seen_nt.insert(f) && sh.samples.len() < 4 {
                                    let v = me.sample(&case);
                                    sh.samples.push(v);
                                }
                                for l in &out.labels {
                                    *sh.labels.entry(l.clone()).or_insert(0) += 1;
                                }
                                if let Some(k) = &known {
                                    *sh.known_hits.entry(k.clone()).or_insert(0) += 1;
                                }
                            }
                            match viol {
                                Some((kind, detail)) => {
                                    if kind.starts_with("worker-death") {
                                        deaths.set(deaths.get() + 1);
                                    }
                                    if !failed.get() {
                                        failed_at.set(Some(Instant::now()));
                                        *first_case.borrow_mut() = Some(case.clone());
                                    }
                                    failed.set(true);
                                    *last.borrow_mut() = Some((kind.clone(), detail.clone()));
                                    Err(TestCaseError::fail(format!("{kind}: {detail}")))
                                }
                                None => Ok(()),
                            }
                        });
                        WATCH_SLOTS[shard].store(0, Ordering::Relaxed);
                        match res {
                            Ok(()) => {}
                            Err(TestError::Fail(_, case)) => {
                                stop.store(true, Ordering::Relaxed);
                                // Re-run the minimal case to get its own kind/detail.
                                WATCH_SLOTS[shard].store(now_ms(base_instant()), Ordering::Relaxed);
                                let out = run_case(me, prop, &case, &mut worker.borrow_mut());
                                WATCH_SLOTS[shard].store(0, Ordering::Relaxed);
                                let (kind, detail) = match out.verdict {
                                    Verdict::Violation { kind, detail } => (kind, detail),
                                    Verdict::Pass => last
                                        .borrow()
                                        .clone()
                                        .map(|(k, d)| (k, format!("(did not reproduce on re-run) {d}")))
                                        .unwrap_or_default(),
                                };
                                failures.lock().unwrap().push((shard, case, kind, detail, first_case.borrow_mut().take()));
                            }
                            Err(TestError::Abort(r)) => {
                                println!("INCONCLUSIVE: proptest aborted stage {stage_name}: {r}");
                                std::process::exit(2);
                            }
                        }
                    })
                    .expect("spawn shard");
            }
        });

        let sh = Arc::try_unwrap(shared).ok().unwrap().into_inner().unwrap();
        let mut rep = StageReport {
            stage: stage_name.to_string(),
            rule: self.rule(),
            evaluations: sh.evaluations,
            distinct: sh.seen.len() as u64,
            distinct_nontrivial: sh.seen_nt.len() as u64,
            labels: sh.labels,
            samples: sh.samples,
            known_hits: sh.known_hits,
            extra: self.extra(),
            ..Default::default()
        };

        // Confirmation: a (shrunk) failing case is reported only if it fails on each of three
        // further executions in fresh state.
        let mut fl = failures.lock().unwrap();
        fl.sort_by_key(|f| f.0);
        for (_shard, case, kind, detail, first_case) in fl.drain(..) {
            let mut case = case;
            let mut confirmed = true;
            let mut k = kind.clone();
            let mut d = detail.clone();
            let mut cw: Option<Worker> = None;
            for _ in 0..3 {
                WATCH_SLOTS[63].store(now_ms(base_instant()), Ordering::Relaxed);
                let o = run_case(self, prop, &case, &mut cw);
                WATCH_SLOTS[63].store(0, Ordering::Relaxed);
                match o.verdict {
                    Verdict::Violation { kind, detail }
                        if known_match(findings, prop, stage_name, &kind).is_none() =>
                    {
                        k = kind;
                        d = detail;
                    }
                    _ => {
                        confirmed = false;
                        break;
                    }
                }
            }
            // The code under test is not always a pure function of the case (hash seeds, its own
            // random ids): when the shrunk case does not fail every time, fall back to the case
            // that failed first and accept it if it fails again in at least 2 of 12 executions.
            if !confirmed {
                if let Some(fc) = first_case {
                    let mut fails = 0;
                    let mut cw: Option<Worker> = None;
                    for _ in 0..12 {
                        WATCH_SLOTS[63].store(now_ms(base_instant()), Ordering::Relaxed);
                        let o = run_case(self, prop, &fc, &mut cw);
                        WATCH_SLOTS[63].store(0, Ordering::Relaxed);
                        if let Verdict::Violation { kind, detail } = o.verdict {
                            if known_match(findings, prop, stage_name, &kind).is_none() {
                                fails += 1;
                                k = kind;
                                d = detail;
                            }
                        }
                    }
                    if fails >= 2 {
                        confirmed = true;
                        d = format!("(unshrunk case; failed in {fails} of 12 further executions) {d}");
                        case = fc;
                    }
                }
            }
            let cv = serde_json::to_value(&case).unwrap_or(Value::Null);
            if confirmed {
                if rep.violation.is_none() {
                    rep.violation = Some(ViolationReport {
                        stage: stage_name.to_string(),
                        kind: k,
                        detail: d,
                        case: cv,
                        replay_path: None,
                    });
                }
            } else {
                rep.unconfirmed.push(json!({"kind": kind, "detail": detail, "case": cv}));
            }
        }
        rep.wall_s = t0.elapsed().as_secs_f64();
        rep
    }
}

fn base_instant() -> Instant {
    use std::sync::OnceLock;
    static B: OnceLock<Instant> = OnceLock::new();
    *B.get_or_init(Instant::now)
}

// ---------------------------------------------------------------------------------------------
// Property driver

pub struct PropertySpec {
    pub id: &'static str,
    pub stages: Vec<Box<dyn DynStage>>,
    pub assumptions: Vec<String>,
    pub explanation: String,
}

fn write_replay(prop: &str, v: &ViolationReport) -> PathBuf {
    let dir = verif_dir().join("replays");
    let _ = std::fs::create_dir_all(&dir);
    let name = format!("{}-{}-{:016x}.json", prop, v.stage, fp(&v.case.to_string()));
    let path = dir.join(name);
    let doc = json!({
        "property": prop, "stage": v.stage, "kind": v.kind, "detail": v.detail, "case": v.case,
    });
    let _ = std::fs::write(&path, serde_json::to_string_pretty(&doc).unwrap());
    path
}

#[derive(Deserialize)]
struct ReplayDoc {
    property: String,
    stage: String,
    case: Value,
    #[serde(default)]
    kind: String,
}

/// Replays one file: Ok(None) = passes, Ok(Some) = violates (not known), Err = harness trouble.
fn replay_file(
    spec: &PropertySpec,
    findings: &Findings,
    path: &Path,
    known_out: &mut BTreeMap<String, u64>,
) -> Result<Option<ViolationReport>, String> {
    let s = std::fs::read_to_string(path).map_err(|e| format!("{}: {e}", path.display()))?;
    let doc: ReplayDoc = serde_json::from_str(&s).map_err(|e| format!("{}: {e}", path.display()))?;
    if doc.property != spec.id {
        return Err(format!("{}: is for property {}", path.display(), doc.property));
    }
    let stage = spec
        .stages
        .iter()
        .find(|s| s.name() == doc.stage)
        .ok_or_else(|| format!("{}: unknown stage {}", path.display(), doc.stage))?;
    let _ = doc.kind;
    let mut worker: Option<Worker> = None;
    for _ in 0..3 {
        let o = stage.exec_value(spec.id, &doc.case, &mut worker)?;
        if let Verdict::Violation { kind, detail } = o.verdict {
            if known_match(findings, spec.id, &doc.stage, &kind).is_some() {
                *known_out.entry(format!("{}/{}", doc.stage, kind)).or_insert(0) += 1;
                continue;
            }
            return Ok(Some(ViolationReport {
                stage: doc.stage.clone(),
                kind,
                detail,
                case: doc.case.clone(),
                replay_path: Some(path.to_path_buf()),
            }));
        }
    }
    Ok(None)
}

pub fn run_property(spec: PropertySpec, tier: Tier, seed: u64) -> i32 {
    let t0 = Instant::now();
    let findings = load_findings();
    let mut known_hits: BTreeMap<String, u64> = BTreeMap::new();
    let mut violation: Option<ViolationReport> = None;

    // Replay tier: committed regression inputs.
    let mut corpus_n = 0u64;
    let cdir = verif_dir().join("corpus").join(spec.id);
    if let Ok(rd) = std::fs::read_dir(&cdir) {
        let mut files: Vec<_> = rd.filter_map(|e| e.ok()).map(|e| e.path()).collect();
        files.sort();
        for f in files.iter().filter(|f| f.extension().map(|e| e == "json").unwrap_or(false)) {
            corpus_n += 1;
            match replay_file(&spec, &findings, f, &mut known_hits) {
                Ok(None) => {}
                Ok(Some(v)) => {
                    if violation.is_none() {
                        violation = Some(v);
                    }
                }
                Err(e) => {
                    println!("INCONCLUSIVE: corpus replay failed: {e}");
                    return 2;
                }
            }
        }
    }

    let mut reports = vec![];
    if violation.is_none() {
        for st in &spec.stages {
            let rep = st.drive(spec.id, tier, seed, &findings);
            println!(
                "[{}:{}] evaluations={} distinct={} distinct_nontrivial={} wall={:.1}s{}",
                spec.id,
                rep.stage,
                rep.evaluations,
                rep.distinct,
                rep.distinct_nontrivial,
                rep.wall_s,
                if rep.violation.is_some() { " VIOLATION" } else { "" }
            );
            for u in &rep.unconfirmed {
                println!(
                    "NOTE: [{}:{}] a failure ({}) was observed once but did not reproduce in the confirmation runs; not reported (see evidence)",
                    spec.id,
                    rep.stage,
                    u.get("kind").and_then(|k| k.as_str()).unwrap_or("?")
                );
            }
            for (k, n) in &rep.known_hits {
                *known_hits.entry(k.clone()).or_insert(0) += n;
            }
            let stop = rep.violation.is_some();
            if let Some(v) = &rep.violation {
                if violation.is_none() {
                    let mut v = v.clone();
                    v.replay_path = Some(write_replay(spec.id, &v));
                    violation = Some(v);
                }
            }
            reports.push(rep);
            if stop {
                break;
            }
        }
    }

    // Evidence
    let evaluations: u64 = reports.iter().map(|r| r.evaluations).sum::<u64>() + corpus_n;
    let dnt: u64 = reports.iter().map(|r| r.distinct_nontrivial).sum();
    let mut samples = vec![];
    for r in &reports {
        for s in &r.samples {
            samples.push(json!({"stage": r.stage, "case": s}));
        }
    }
    if samples.is_empty() {
        samples.push(json!({"note": "no non-trivial case was generated in this run"}));
    }
    let rule = reports
        .iter()
        .map(|r| format!("[{}] {}", r.stage, r.rule))
        .collect::<Vec<_>>()
        .join(" || ");
    let stages_json: Vec<Value> = reports
        .iter()
        .map(|r| {
            json!({
                "stage": r.stage, "evaluations": r.evaluations, "distinct": r.distinct,
                "distinct_nontrivial": r.distinct_nontrivial, "labels": r.labels,
                "known_finding_hits": r.known_hits, "unconfirmed": r.unconfirmed,
                "wall_s": r.wall_s, "extra": r.extra,
            })
        })
        .collect();
    let ev = json!({
        "property_id": spec.id,
        "tier": tier.name(),
        "seed": seed as i64,
        "level": "exploration",
        "coverage": {
            "evaluations": evaluations,
            "distinct_nontrivial": dnt,
            "rule": rule,
            "samples": samples,
            "exhaustive": false,
            "explanation": spec.explanation,
            "stages": stages_json,
            "corpus_replayed": corpus_n,
            "known_finding_hits": known_hits,
        },
        "assumptions": spec.assumptions,
        "wall_s": t0.elapsed().as_secs_f64(),
        "violations": if violation.is_some() { 1 } else { 0 },
    });
    let edir = verif_dir().join("evidence");
    let _ = std::fs::create_dir_all(&edir);
    let epath = edir.join(format!("{}.json", spec.id));
    if let Err(e) = std::fs::write(&epath, serde_json::to_string_pretty(&ev).unwrap()) {
        println!("INCONCLUSIVE: cannot write evidence {}: {e}", epath.display());
        return 2;
    }

    for f in findings.findings.iter().filter(|f| f.property == spec.id && f.status == "known") {
        println!("KNOWN-FINDING: property={} {} [{}] hits_this_run={}", spec.id, f.what, f.signature,
            known_hits.get(&f.signature).copied().unwrap_or(0));
    }

    match violation {
        Some(v) => {
            println!("violation kind: {}/{}", v.stage, v.kind);
            println!("violation detail: {}", v.detail);
            println!(
                "VIOLATION property={} replay={}",
                spec.id,
                v.replay_path.map(|p| p.display().to_string()).unwrap_or_default()
            );
            1
        }
        None => {
            println!("OK property={} tier={} seed={} evaluations={} distinct_nontrivial={}", spec.id, tier.name(), seed, evaluations, dnt);
            0
        }
    }
}

pub fn replay_property(spec: PropertySpec, path: &Path) -> i32 {
    let findings = load_findings();
    let mut kh = BTreeMap::new();
    match replay_file(&spec, &findings, path, &mut kh) {
        Ok(None) => {
            for (k, _) in kh {
                println!("KNOWN-FINDING: property={} signature={}", spec.id, k);
            }
            println!("OK replay passes: {}", path.display());
            0
        }
        Ok(Some(v)) => {
            println!("violation kind: {}/{}", v.stage, v.kind);
            println!("violation detail: {}", v.detail);
            println!("VIOLATION property={} replay={}", spec.id, path.display());
            1
        }
        Err(e) => {
            println!("INCONCLUSIVE: {e}");
            2
        }
    }
}

// ---------------------------------------------------------------------------------------------
// Small helpers shared by generators

/// Monotone index mapping (shrinks towards 0): maps a u16 draw onto 0..len.
pub fn idx(i: u16, len: usize) -> usize {
    if len == 0 {
        0
    } else {
        ((i as usize) * len) >> 16
    }
}

pub fn boxed<S: Strategy + 'static>(s: S) -> BoxedStrategy<S::Value> {
    s.boxed()
}
