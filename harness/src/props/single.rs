//! One real serving node without contacts (bootstraps at once, no background traffic), driven
//! by injected datagrams; replies are read from the wire log of the same virtual millisecond.

use crate::bcodec::*;
use crate::sim::*;
use crate::world::*;
use btdht::MainlineDht;
use std::net::SocketAddr;

pub struct Solo {
    pub net: SimNet,
    pub node: SocketAddr,
    pub node_id: Id,
    pub dht: Option<MainlineDht>,
    pub v6: bool,
}

pub fn fam_addr(v6: bool, n: u16, port: u16) -> SocketAddr {
    if v6 {
        crate::sim::v6(n, port)
    } else {
        v4((n >> 8) as u8, (n & 0xff) as u8, port)
    }
}

impl Solo {
    /// Must be called inside a paused runtime.
    pub fn start(v6: bool, node_id: Id) -> Solo {
        let net = SimNet::new(Box::new(Instant0));
        let node = fam_addr(v6, 1, 6881);
        let dht = start_node(&net, &NodeCfg { addr: node, id: node_id, read_only: false, nodes: vec![], routers: vec![], announce_port: None });
        Solo { net, node, node_id, dht: Some(dht), v6 }
    }

    /// Stop the node and start a fresh instance with the same id and address.
    pub async fn restart(&mut self) {
        self.dht = None;
        self.net.settle().await;
        self.net.unbind(&self.node);
        self.dht = Some(start_node(&self.net, &NodeCfg { addr: self.node, id: self.node_id, read_only: false, nodes: vec![], routers: vec![], announce_port: None }));
        self.net.settle().await;
    }

    /// Inject `m` from `src`; return the node's response/error datagrams to `src` in that instant.
    pub async fn ask(&self, src: SocketAddr, m: &KMsg) -> Vec<Result<KMsg, Vec<u8>>> {
        self.ask_raw(src, &m.encode()).await
    }

    pub async fn ask_raw(&self, src: SocketAddr, bytes: &[u8]) -> Vec<Result<KMsg, Vec<u8>>> {
        let start = self.net.log_len();
        self.net.inject(src, self.node, bytes);
        self.net.settle().await;
        let log = self.net.log_from(start);
        sent_by(&log, self.node)
            .into_iter()
            .filter(|(e, _)| e.to == src)
            .filter_map(|(e, m)| match m {
                Some(m) if is_reply(&m) => Some(Ok(m)),
                Some(_) => None,
                None => Some(Err(e.bytes.to_vec())),
            })
            .collect()
    }

    /// Exactly-one-reply helper.
    pub async fn ask1(&self, src: SocketAddr, m: &KMsg) -> Result<KMsg, String> {
        let mut r = self.ask(src, m).await;
        if r.len() != 1 {
            return Err(format!("{} replies to {:?} from {src}", r.len(), m.body));
        }
        match r.pop().unwrap() {
            Ok(k) if k.tid == m.tid => Ok(k),
            Ok(k) => Err(format!("reply with tid {} to query with tid {}", hex(&k.tid), hex(&m.tid))),
            Err(b) => Err(format!("undecodable reply of {} bytes", b.len())),
        }
    }

    pub async fn get_peers(&self, src: SocketAddr, hash: &Id, want: KWant, tid: &[u8]) -> Result<KResp, String> {
        let m = KMsg { tid: tid.to_vec(), body: KBody::Query(KQuery::GetPeers { id: vec![0x33; 20], info_hash: hash.to_vec(), want }) };
        match self.ask1(src, &m).await?.body {
            KBody::Resp(r) => Ok(r),
            other => Err(format!("get_peers answered with {other:?}")),
        }
    }

    /// Ok(true) = acknowledged, Ok(false)+code = refused with that error code
    pub async fn announce(&self, src: SocketAddr, hash: &Id, port: Option<u16>, token: &[u8], tid: &[u8]) -> Result<Result<(), i64>, String> {
        let m = KMsg { tid: tid.to_vec(), body: KBody::Query(KQuery::Announce { id: vec![0x33; 20], info_hash: hash.to_vec(), port, token: token.to_vec() }) };
        match self.ask1(src, &m).await?.body {
            KBody::Resp(_) => Ok(Ok(())),
            KBody::Error { code, .. } => Ok(Err(code)),
            KBody::Query(_) => unreachable!(),
        }
    }
}
