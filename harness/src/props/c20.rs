//! C20 — InfoHash::from_ip satisfies BEP42 for every address.

use crate::engine::*;
use crate::models::bep42;
use btdht::InfoHash;
use proptest::prelude::*;
use serde::{Deserialize, Serialize};
use std::net::{IpAddr, Ipv4Addr, Ipv6Addr};

const V4_MASK: u32 = 0x030f_3fff;

fn deposit(class: u32, mask: u32) -> u32 {
    // scatter the low bits of `class` into the set bits of `mask`
    let mut out = 0u32;
    let mut k = 0;
    for bit in 0..32 {
        if mask >> bit & 1 == 1 {
            out |= (class >> k & 1) << bit;
            k += 1;
        }
    }
    out
}

fn check(ip: IpAddr) -> Result<(), String> {
    let id: [u8; 20] = InfoHash::from_ip(ip).into();
    if bep42::valid(ip, &id) {
        Ok(())
    } else {
        Err(format!(
            "from_ip({ip}) = {} fails BEP42: r={} expected prefix {:02x?}",
            crate::bcodec::hex(&id),
            id[19] & 7,
            bep42::expected_prefix(ip, id[19])
        ))
    }
}

// ---- stage 1: sweep over all 2^20 IPv4 mask classes ----------------------------------------

#[derive(Clone, Debug, Serialize, Deserialize)]
pub struct Sweep {
    salt: u64,
    /// classes [first, first+count) are swept (whole space in generated cases)
    first: u32,
    count: u32,
}

pub struct V4Sweep;

impl Stage for V4Sweep {
    type Case = Sweep;
    fn name(&self) -> &'static str {
        "v4-sweep"
    }
    fn cases(&self, tier: Tier) -> u32 {
        tier.pick(16, 16 * 16)
    }
    fn strategy(&self, _t: Tier) -> BoxedStrategy<Sweep> {
        // each case covers one sixteenth of the class space... no: the whole space, so that
        // every run enumerates all 2^20 classes at least once per shard.
        any::<u64>().prop_map(|salt| Sweep { salt, first: 0, count: 1 << 20 }).boxed()
    }
    fn run(&self, c: &Sweep) -> Outcome {
        for class in c.first..c.first.saturating_add(c.count).min(1 << 20) {
            let fill = splitmix(c.salt ^ class as u64) as u32;
            let ip = deposit(class, V4_MASK) | (fill & !V4_MASK);
            if let Err(e) = check(IpAddr::V4(Ipv4Addr::from(ip))) {
                return Outcome::violation("bep42-v4", e);
            }
        }
        Outcome::pass(true).label("sweep")
    }
    fn rule(&self) -> String {
        "each case enumerates all 2^20 combinations of the BEP42 mask-relevant IPv4 bits (mask 0x030f3fff), the other 12 bits filled pseudo-randomly from the case's salt; from_ip draws its own r per call; non-trivial: every sweep (the mask changes the address for all but 2^-12 of them); distinct = distinct salts".into()
    }
    fn sample(&self, c: &Sweep) -> serde_json::Value {
        let ex: Vec<String> = (0..3u32)
            .map(|k| {
                let class = (splitmix(c.salt ^ k as u64) as u32) & 0xfffff;
                let fill = splitmix(c.salt ^ class as u64) as u32;
                Ipv4Addr::from(deposit(class, V4_MASK) | (fill & !V4_MASK)).to_string()
            })
            .collect();
        serde_json::json!({"salt": c.salt, "classes": c.count, "example_addresses": ex})
    }
    fn extra(&self) -> serde_json::Value {
        serde_json::json!({"addresses_per_case": 1u32 << 20, "exhaustive_over": "2^20 IPv4 mask classes per case"})
    }
}

// ---- stage 2: individual addresses, both families, several draws ----------------------------

#[derive(Clone, Debug, Serialize, Deserialize)]
pub struct One {
    v6: bool,
    hi: u64,
    lo: u64,
    draws: u8,
}

impl One {
    fn ip(&self) -> IpAddr {
        if self.v6 {
            let mut o = [0u8; 16];
            o[..8].copy_from_slice(&self.hi.to_be_bytes());
            o[8..].copy_from_slice(&self.lo.to_be_bytes());
            IpAddr::V6(Ipv6Addr::from(o))
        } else {
            IpAddr::V4(Ipv4Addr::from(self.hi as u32))
        }
    }
}

pub struct Addrs;

fn edge64() -> impl Strategy<Value = u64> {
    prop_oneof![
        4 => any::<u64>(),
        1 => Just(0u64),
        1 => Just(u64::MAX),
        1 => (0u32..64).prop_map(|b| 1u64 << b),
        1 => (0u32..64).prop_map(|b| !(1u64 << b)),
        1 => Just(0x0103_070f_1f3f_7fffu64),
        1 => Just(!0x0103_070f_1f3f_7fffu64),
        1 => any::<u32>().prop_map(|x| 0xfe80_0000_0000_0000u64 | x as u64),
        1 => any::<u32>().prop_map(|x| 0x2001_0db8_0000_0000u64 | x as u64),
        1 => Just(0x0064_ff9b_0000_0000u64),
    ]
}

/// low 64 bits of an IPv6 address: random, or the special forms whose upper 64 bits are zero
/// (IPv4-mapped ::ffff:a.b.c.d, IPv4-compatible ::a.b.c.d, loopback ::1, unspecified ::)
fn low64() -> impl Strategy<Value = u64> {
    prop_oneof![
        4 => any::<u64>(),
        1 => any::<u32>().prop_map(|v4| 0xffff_0000_0000u64 | v4 as u64),
        1 => any::<u32>().prop_map(|v4| v4 as u64),
        1 => Just(1u64),
        1 => Just(0u64),
    ]
}

impl Stage for Addrs {
    type Case = One;
    fn name(&self) -> &'static str {
        "addresses"
    }
    fn cases(&self, tier: Tier) -> u32 {
        tier.pick(200_000, 4_000_000)
    }
    fn strategy(&self, _t: Tier) -> BoxedStrategy<One> {
        (any::<bool>(), prop_oneof![3 => edge64(), 1 => Just(0u64)], low64(), 1u8..5)
            .prop_map(|(v6, hi, lo, draws)| One {
                v6,
                hi: if v6 { hi } else { hi & 0xffff_ffff },
                lo: if v6 { lo } else { 0 },
                draws,
            })
            .boxed()
    }
    fn run(&self, c: &One) -> Outcome {
        let ip = c.ip();
        for _ in 0..c.draws.max(1) {
            if let Err(e) = check(ip) {
                return Outcome::violation(if c.v6 { "bep42-v6" } else { "bep42-v4" }, e);
            }
        }
        let masked_differs = match ip {
            IpAddr::V4(a) => u32::from(a) & !V4_MASK != 0,
            IpAddr::V6(_) => c.hi & !0x0103_070f_1f3f_7fff != 0,
        };
        Outcome::pass(masked_differs).label(if c.v6 { "v6" } else { "v4" })
    }
    fn rule(&self) -> String {
        "random and edge (all-zero, all-one, single-bit, mask, inverted mask, link-local, documentation, NAT64) IPv4 addresses and IPv6 /64 prefixes, IPv6 low halves random or special (IPv4-mapped, IPv4-compatible, ::1, ::), 1..4 draws of the internal randomness each; non-trivial: the BEP42 mask actually changes the address".into()
    }
}

// ---- stage 3: the internal randomness is really used ---------------------------------------

pub struct RCoverage;

impl Stage for RCoverage {
    type Case = One;
    fn name(&self) -> &'static str {
        "r-coverage"
    }
    fn cases(&self, tier: Tier) -> u32 {
        tier.pick(16, 256)
    }
    fn strategy(&self, t: Tier) -> BoxedStrategy<One> {
        Addrs.strategy(t)
    }
    fn run(&self, c: &One) -> Outcome {
        let ip = c.ip();
        let mut seen_r = [false; 8];
        let mut first: Option<[u8; 20]> = None;
        let mut middle_varies = false;
        for _ in 0..10_000 {
            let id: [u8; 20] = InfoHash::from_ip(ip).into();
            if !bep42::valid(ip, &id) {
                return Outcome::violation("bep42", format!("from_ip({ip}) = {}", crate::bcodec::hex(&id)));
            }
            seen_r[(id[19] & 7) as usize] = true;
            match &first {
                None => first = Some(id),
                Some(f) => {
                    if f[3..19] != id[3..19] {
                        middle_varies = true;
                    }
                }
            }
        }
        if !seen_r.iter().all(|x| *x) {
            return Outcome::violation("r-not-random", format!("over 10000 draws for {ip} the 3 random bits took only values {seen_r:?}"));
        }
        if !middle_varies {
            return Outcome::violation("id-not-random", format!("bytes 3..18 constant over 10000 draws for {ip}"));
        }
        Outcome::pass(true)
    }
    fn rule(&self) -> String {
        "10000 draws of from_ip for one address: every id passes BEP42, all 8 values of r occur, bytes 3..18 vary (guards degenerate implementations); every case non-trivial".into()
    }
}

pub fn spec() -> PropertySpec {
    PropertySpec {
        id: "C20",
        stages: vec![Box::new(V4Sweep), Box::new(Addrs), Box::new(RCoverage)],
        assumptions: vec![
            "The BEP42 validator is the harness's own (table-driven CRC32-C, masks 0x030f3fff / 0x0103070f1f3f7fff, r = id[19] & 7); it is self-checked at start-up against the five published BEP42 vectors and their 21 single-bit corruptions.".into(),
            "from_ip's internal randomness is not controllable; coverage of r comes from repetition.".into(),
        ],
        explanation: "Oracle: independent BEP42 check of InfoHash::from_ip output. The 2^20 IPv4 mask classes are enumerated completely in every sweep case; IPv6 prefixes are sampled.".into(),
    }
}
