//! C19 — transaction ids (component tier on the re-exported generators; wire tier in c19w).

use crate::engine::*;
use btdht::verif::AIDGenerator;
use proptest::prelude::*;
use serde::{Deserialize, Serialize};
use std::collections::HashSet;

#[derive(Clone, Debug, Serialize, Deserialize)]
pub struct StreamCase {
    /// action ids drawn (and dropped) before the stream's generator
    skip: u16,
    /// number of message ids drawn
    len: u32,
}

fn check_stream(skip: u16, len: u32) -> Result<(), (String, String)> {
    let mut aid = AIDGenerator::new();
    for _ in 0..skip {
        let _ = aid.generate();
    }
    let mut g = aid.generate();
    let action = g.action_id();
    let mut bits = vec![0u64; (1 << 24) / 64];
    let mut prefix: Option<[u8; 5]> = None;
    for i in 0..len {
        if i > 0 && i % (1 << 24) == 0 {
            bits.iter_mut().for_each(|w| *w = 0);
        }
        let t = g.generate();
        let b: &[u8] = t.as_ref();
        if b.len() != 8 {
            return Err(("tid-length".into(), format!("id #{i} has {} bytes", b.len())));
        }
        let mut p = [0u8; 5];
        p.copy_from_slice(&b[..5]);
        match prefix {
            None => prefix = Some(p),
            Some(q) if q != p => {
                return Err(("prefix-changed".into(), format!("id #{i} has prefix {p:02x?}, stream started with {q:02x?}")))
            }
            _ => {}
        }
        if t.action_id() != action || g.action_id() != action {
            return Err(("action-id-mismatch".into(), format!("id #{i} {b:02x?} does not carry the generator's action id")));
        }
        let m = ((b[5] as usize) << 16) | ((b[6] as usize) << 8) | b[7] as usize;
        if bits[m / 64] >> (m % 64) & 1 == 1 {
            return Err(("tid-repeated".into(), format!("message id {m:#x} repeated at position {i} (within one block of 2^24)")));
        }
        bits[m / 64] |= 1 << (m % 64);
    }
    Ok(())
}

pub struct Edge;

impl Stage for Edge {
    type Case = StreamCase;
    fn name(&self) -> &'static str {
        "edge-streams"
    }
    fn cases(&self, tier: Tier) -> u32 {
        tier.pick(400, 8000)
    }
    fn strategy(&self, _t: Tier) -> BoxedStrategy<StreamCase> {
        (prop_oneof![3 => 0u16..8, 1 => 2040u16..2056, 1 => 4090u16..4100, 1 => any::<u16>().prop_map(|x| x % 6200)],
         0u32..10, -3i32..=3, prop::bool::weighted(0.2), 0u32..5000)
            .prop_map(|(skip, blocks, d, free, f)| StreamCase { skip, len: if free { f } else { (blocks as i32 * 2048 + d).max(1) as u32 } })
            .boxed()
    }
    fn run(&self, c: &StreamCase) -> Outcome {
        match check_stream(c.skip, c.len) {
            Ok(()) => Outcome::pass(c.len > 2048).label(if c.skip >= 2047 { "second-action-block" } else { "first-action-block" }),
            Err((k, d)) => Outcome::violation(k, d),
        }
    }
    fn rule(&self) -> String {
        "message-id streams of lengths around the 2048-block edges (k*2048 + d, d in -3..3, k < 10, plus free lengths < 5000) from the n-th generator of a fresh AIDGenerator (n around 0, 2048, 4096 and random < 6200); non-trivial: stream crosses at least one block edge".into()
    }
}

pub struct Wrap;

impl Stage for Wrap {
    type Case = StreamCase;
    fn name(&self) -> &'static str {
        "wrap-streams"
    }
    fn cases(&self, tier: Tier) -> u32 {
        // the shuffled action id of a stream is even or odd with equal chance, and some defects
        // show for one parity only: enough streams to see both
        tier.pick(12, 64)
    }
    fn strategy(&self, _t: Tier) -> BoxedStrategy<StreamCase> {
        (0u16..4100, 0u32..3).prop_map(|(skip, extra)| StreamCase { skip, len: (1 << 24) + (2 + extra) * 2048 + 7 }).boxed()
    }
    fn run(&self, c: &StreamCase) -> Outcome {
        match check_stream(c.skip, c.len) {
            Ok(()) => Outcome::pass(c.len > (1 << 24)),
            Err((k, d)) => Outcome::violation(k, d),
        }
    }
    fn rule(&self) -> String {
        "complete message-id streams through the 2^24 wrap (2^24 + 2..4 blocks + 7 ids): all 2^24 ids of the first cycle pairwise distinct (bitset), same 5-byte prefix, then distinct again after the wrap; every case non-trivial".into()
    }
    fn extra(&self) -> serde_json::Value {
        serde_json::json!({"exhaustive_over": "all 2^24 message ids of one generator per case"})
    }
}

#[derive(Clone, Debug, Serialize, Deserialize)]
pub struct PrefixCase {
    k: u16,
}

pub struct Prefixes;

impl Stage for Prefixes {
    type Case = PrefixCase;
    fn name(&self) -> &'static str {
        "action-prefixes"
    }
    fn cases(&self, tier: Tier) -> u32 {
        tier.pick(64, 1000)
    }
    fn strategy(&self, _t: Tier) -> BoxedStrategy<PrefixCase> {
        prop_oneof![2 => 2u16..40, 2 => 2040u16..2060, 2 => 4090u16..4110, 1 => 6140u16..6160, 1 => 2u16..6200]
            .prop_map(|k| PrefixCase { k })
            .boxed()
    }
    fn run(&self, c: &PrefixCase) -> Outcome {
        let mut aid = AIDGenerator::new();
        let mut seen: HashSet<[u8; 5]> = HashSet::new();
        for i in 0..c.k {
            let mut g = aid.generate();
            let t = g.generate();
            let b: &[u8] = t.as_ref();
            if b.len() != 8 {
                return Outcome::violation("tid-length", format!("{} bytes", b.len()));
            }
            let mut p = [0u8; 5];
            p.copy_from_slice(&b[..5]);
            if t.action_id() != g.action_id() {
                return Outcome::violation("action-id-mismatch", format!("generator #{i}"));
            }
            if !seen.insert(p) {
                return Outcome::violation("prefix-shared", format!("generator #{i} re-uses activity prefix {p:02x?}"));
            }
        }
        Outcome::pass(c.k > 2048)
    }
    fn rule(&self) -> String {
        "k activities (k up to 3*2048+~10) drawn from one AIDGenerator: all 5-byte prefixes pairwise distinct, each generator's ids carry its prefix; non-trivial: k crosses an action-id block edge (k > 2048)".into()
    }
}

pub fn spec() -> PropertySpec {
    PropertySpec {
        id: "C19",
        stages: vec![Box::new(Edge), Box::new(Prefixes), Box::new(Wrap), Box::new(super::maint::C19Wire)],
        assumptions: vec!["Component tier uses the re-exported AIDGenerator/MIDGenerator (hook H2). The 2^40 action-id wrap is out of reach of enumeration.".into()],
        explanation: "Oracle: uniqueness (bitset over 2^24 message ids), constant 5-byte prefix equal to the generator's action id, pairwise distinct prefixes across activities.".into(),
    }
}
