//! C15 — bootstrap completes when it can, tells every waiter, never kills the node.

use super::single::fam_addr;
use crate::bcodec::*;
use crate::engine::*;
use crate::sim::*;
use crate::world::*;
use proptest::collection::vec;
use proptest::prelude::*;
use serde::{Deserialize, Serialize};
use std::net::SocketAddr;
use std::sync::{Arc, Mutex};
use std::time::Duration;

#[derive(Clone, Copy, Debug, Serialize, Deserialize, PartialEq)]
pub enum Kind {
    Answer,
    Silent,
    KrpcError,
    Garbage,
    /// an address of the other family: the node's socket refuses to send to it
    Unsendable,
    /// answers like `Answer`, but every reply is sent twice in the same instant
    AnswerTwice,
}

#[derive(Clone, Debug, Serialize, Deserialize)]
pub struct Contact {
    kind: Kind,
    as_node: bool,
    as_router: bool,
    delay_ms: u16,
}

#[derive(Clone, Debug, Serialize, Deserialize)]
pub struct Case {
    v6: bool,
    read_only: bool,
    contacts: Vec<Contact>,
    /// alternating (down_ms, up_ms) intervals starting at t=0 with "down"; after the last one the
    /// network stays up for good
    outages: Vec<(u32, u32)>,
    /// times (ms) at which bootstrapped() is called
    waiters: Vec<u32>,
    /// callers that give up: (call time ms, dropped after ms) — their future is dropped while
    /// other callers keep waiting
    #[serde(default)]
    quitters: Vec<(u32, u32)>,
    /// serving nodes only: a stranger pings the node every `.0` ms and each reply takes `.1` ms to
    /// send (busy event loop), while get_state() is polled every 97 ms
    #[serde(default)]
    busy: Option<(u16, u16)>,
    rt_seed: u64,
}

pub struct Boot;

fn contact() -> impl Strategy<Value = Contact> {
    (
        prop_oneof![8 => Just(Kind::Answer), 6 => Just(Kind::Silent), 2 => Just(Kind::KrpcError), 2 => Just(Kind::Garbage), 1 => Just(Kind::Unsendable), 2 => Just(Kind::AnswerTwice)],
        prop_oneof![6 => Just((true, false)), 2 => Just((false, true)), 2 => Just((true, true))],
        prop_oneof![3 => Just(0u16), 3 => 1u16..400, 2 => 400u16..2400, 1 => 2400u16..2600, 1 => 2600u16..9000],
    )
        .prop_map(|(kind, (as_node, as_router), delay_ms)| Contact { kind, as_node, as_router, delay_ms })
}

impl Stage for Boot {
    type Case = Case;
    fn name(&self) -> &'static str {
        "bootstrap"
    }
    fn cases(&self, tier: Tier) -> u32 {
        tier.pick(500, 40000)
    }
    fn strategy(&self, _t: Tier) -> BoxedStrategy<Case> {
        let outage = prop_oneof![
            3 => Just(vec![]),
            3 => vec((prop_oneof![1u32..5_000, 5_000u32..120_000, 60_000u32..1_800_000], prop_oneof![1_000u32..3_000, 1_000u32..60_000]), 1..4),
            1 => vec((1_000u32..20_000, 1_000u32..2_000), 4..12),
            1 => (600_000u32..7_200_000).prop_map(|d| vec![(d, 1000)]),
        ];
        (
            any::<bool>(),
            any::<bool>(),
            prop_oneof![
                1 => Just(vec![]),
                6 => vec(contact(), 1..8),
                2 => vec(contact(), 8..40),
                // a crowd of prompt answering nodes plus a few silent ones: the table ends up with
                // >= 10 good nodes, so the first bootstrap is the only one
                3 => (vec(prop_oneof![3 => Just(0u16), 1 => 1u16..300], 10..18), 0usize..4).prop_map(|(delays, n_silent)| {
                    let mut v: Vec<Contact> = delays.into_iter().map(|delay_ms| Contact { kind: Kind::Answer, as_node: true, as_router: false, delay_ms }).collect();
                    v.extend((0..n_silent).map(|_| Contact { kind: Kind::Silent, as_node: true, as_router: false, delay_ms: 0 }));
                    v
                }),
            ],
            outage,
            vec(prop_oneof![Just(0u32), 0u32..5_000, 0u32..200_000, 0u32..3_000_000], 0..12),
            any::<u64>(),
            proptest::option::weighted(0.4, (300u16..1500, 10u16..70).prop_map(|(period, pct)| (period, (period as u32 * pct as u32 / 100) as u16))),
            prop_oneof![2 => Just(vec![]), 1 => vec((prop_oneof![Just(0u32), 0u32..5_000, 0u32..200_000], prop_oneof![1u32..3_000, 1u32..60_000]), 1..4)],
        )
            .prop_map(|(v6, read_only, contacts, outages, waiters, rt_seed, busy, quitters)| Case { v6, read_only, contacts, outages, waiters, quitters, busy, rt_seed })
            .boxed()
    }
    fn run(&self, c: &Case) -> Outcome {
        let rt = paused_rt(c.rt_seed);
        rt.block_on(async {
            let node = fam_addr(c.v6, 1, 6881);
            let node_id: Id = [0x15; 20];
            let pinger = fam_addr(c.v6, 990, 9990);
            let busy = if c.read_only { None } else { c.busy };
            let unsendable: Vec<SocketAddr> = c.contacts.iter().enumerate().filter(|(_, ct)| ct.kind == Kind::Unsendable).map(|(i, _)| fam_addr(!c.v6, 100 + i as u16, 7000 + i as u16)).collect();
            let base = move |d: &Dgram| if d.from == node && unsendable.contains(&d.to) { Fate::SendError } else { Fate::Deliver(vec![Duration::ZERO]) };
            let net = SimNet::new(Box::new(SlowSends { inner: base, node, to: vec![pinger], ms: busy.map(|b| b.1 as u64).unwrap_or(0) }));
            // outage schedule
            let mut sched: Vec<(u64, u64)> = vec![]; // down intervals [a, b)
            let mut t = 0u64;
            for (down, up) in &c.outages {
                sched.push((t, t + *down as u64));
                t += *down as u64 + *up as u64;
            }
            let t_up = sched.last().map(|s| s.1).unwrap_or(0);
            let sched = Arc::new(sched);
            let addrs: Vec<SocketAddr> = (0..c.contacts.len()).map(|i| fam_addr(c.v6 != (c.contacts[i].kind == Kind::Unsendable), 100 + i as u16, 7000 + i as u16)).collect();
            let cid = |i: usize| -> Id {
                let mut id = [0u8; 20];
                id[0] = (i as u8).wrapping_mul(7).wrapping_add(1);
                id[5] = i as u8;
                id
            };
            // answering contacts name the silent ones (at most 20): hearsay contacts that the bucket
            // phase of the bootstrap then pings in vain (500 ms each), so that a bootstrap can also
            // complete on a timer of its own, while the event loop is busy
            // ... and the other answering contacts (at most 16), so that a world with many of them
            // yields a table with >= 10 good nodes: such a node never re-bootstraps, and a waiter
            // that missed the completion is never rescued by a later one
            let mut silent_named: Vec<(Id, SocketAddr)> = c.contacts.iter().enumerate().filter(|(_, ct)| ct.kind == Kind::Silent).take(12).map(|(i, _)| (cid(i), addrs[i])).collect();
            silent_named.extend(c.contacts.iter().enumerate().filter(|(_, ct)| matches!(ct.kind, Kind::Answer | Kind::AnswerTwice)).take(16).map(|(i, _)| (cid(i), addrs[i])));
            for (i, ct) in c.contacts.iter().enumerate() {
                let sched = sched.clone();
                let kind = ct.kind;
                let delay = ct.delay_ms as u64;
                let id = cid(i);
                let named = silent_named.clone();
                spawn_puppet(&net, addrs[i], move |_raw, msg, from, now| {
                    let now = now.as_millis() as u64;
                    if sched.iter().any(|(a, b)| now >= *a && now < *b) {
                        return vec![];
                    }
                    let Some(m) = msg else { return vec![] };
                    if !matches!(m.body, KBody::Query(_)) {
                        return vec![];
                    }
                    match kind {
                        Kind::Silent | Kind::Unsendable => vec![],
                        Kind::Answer | Kind::AnswerTwice => {
                            let (nodes, nodes6) = node_lists(&named);
                            let r = resp(&m.tid, KResp { id: id.to_vec(), nodes, nodes6, ..Default::default() });
                            if kind == Kind::AnswerTwice {
                                vec![Out::after(delay, from, &r), Out::after(delay, from, &r)]
                            } else {
                                vec![Out::after(delay, from, &r)]
                            }
                        }
                        Kind::KrpcError => vec![Out::after(delay, from, &KMsg { tid: m.tid.clone(), body: KBody::Error { code: 202, msg: "Server Error".into() } })],
                        Kind::Garbage => vec![Out { delay: Duration::from_millis(delay), to: from, bytes: b"d1:t4:junk1:y1:".to_vec() }],
                    }
                });
            }
            let nodes: Vec<SocketAddr> = c.contacts.iter().zip(&addrs).filter(|(c, _)| c.as_node).map(|(_, a)| *a).collect();
            let routers: Vec<String> = c.contacts.iter().zip(&addrs).filter(|(c, _)| c.as_router).map(|(_, a)| a.to_string()).collect();
            let dht = start_node(&net, &NodeCfg { addr: node, id: node_id, read_only: c.read_only, nodes: nodes.clone(), routers: routers.clone(), announce_port: None });

            // waiters
            let results: Arc<Mutex<Vec<(u32, u64, bool)>>> = Arc::new(Mutex::new(vec![]));
            for w in &c.waiters {
                let dht = dht.clone();
                let net = net.clone();
                let res = results.clone();
                let w = *w;
                tokio::spawn(async move {
                    net.sleep_until(Duration::from_millis(w as u64)).await;
                    let r = dht.bootstrapped().await;
                    res.lock().unwrap().push((w, net.now_ms(), r));
                });
            }

            for (at, after) in &c.quitters {
                let dht = dht.clone();
                let net = net.clone();
                let (at, after) = (*at, *after);
                tokio::spawn(async move {
                    net.sleep_until(Duration::from_millis(at as u64)).await;
                    // dropped when the time is up
                    let _ = within(Duration::from_millis(after as u64), dht.bootstrapped()).await;
                });
            }
            if let Some((period, _)) = busy {
                let horizon = (t_up + 700_000).min(3_600_000);
                spawn_pinger(&net, pinger, node, 50, period as u64, (horizon / period as u64) as u32);
                let d2 = dht.clone();
                let n2 = net.clone();
                tokio::spawn(async move {
                    let mut t = 0u64;
                    while t < horizon {
                        t += 97;
                        n2.sleep_until(Duration::from_millis(t)).await;
                        let _ = d2.get_state().await;
                    }
                });
            }
            let plain = routers.is_empty() && !nodes.is_empty();
            // a contact is responsive if its answer arrives within the 2.5 s the initial round waits
            // (under a busy event loop the answer waits for the send in progress and for a ping queued
            // ahead of it before the node processes it: allow three blocks)
            let slack = 3 * busy.map(|b| b.1 as u64).unwrap_or(0);
            let some_answerer = c.contacts.iter().any(|c| matches!(c.kind, Kind::Answer | Kind::AnswerTwice) && c.as_node && (c.delay_ms as u64) + slack < 2400);
            let last_waiter = c.waiters.iter().max().copied().unwrap_or(0) as u64;
            let end = t_up.max(last_waiter) + 700_000;
            // liveness sampling
            let mut tnow = 0u64;
            let step = (end / 400).max(2_000);
            while tnow < end {
                tnow += step;
                net.sleep_until(Duration::from_millis(tnow)).await;
                // 1 virtual second, plus the time a busy event loop may spend in one send
                let lim = Duration::from_millis(1000 + 3 * busy.map(|b| b.1 as u64).unwrap_or(0));
                let ok = within(lim, dht.get_state()).await.flatten().map(|s| s.is_running).unwrap_or(false)
                    && within(lim, dht.local_addr()).await.and_then(|r| r.ok()) == Some(node)
                    && within(lim, dht.load_contacts()).await.and_then(|r| r.ok()).is_some();
                if !ok {
                    let overlap = c.contacts.iter().any(|c| c.as_node && c.as_router);
                    return Outcome::violation(
                        if overlap { "node-dead/contact-is-both-router-and-node" } else { "node-dead" },
                        format!("at t={tnow} ms get_state/local_addr/load_contacts no longer answer within 1 virtual second (routers {routers:?}, nodes {})", nodes.len()),
                    );
                }
            }
            let log = net.log();
            let res = results.lock().unwrap().clone();
            if std::env::var_os("VERIF_DEBUG").is_some() {
                eprintln!("t_up={t_up} waiters resolved: {res:?}; state: {:?}", within(Duration::from_secs(5), dht.get_state()).await);
            }
            if nodes.is_empty() && routers.is_empty() {
                // (replies to the pinger's queries are not traffic of the node's own making)
                if let Some(e) = log.iter().find(|e| e.from == node && e.to != pinger) {
                    return Outcome::violation("traffic-without-contacts", format!("node without contacts sent a datagram to {} at {:?}", e.to, e.t));
                }
                for w in &c.waiters {
                    match res.iter().find(|r| r.0 == *w) {
                        // (a busy event loop answers once its current send has returned)
                        Some((_, at, true)) if *at <= *w as u64 + 1 + busy.map(|b| b.1 as u64).unwrap_or(0) => {}
                        other => return Outcome::violation("no-contacts-not-bootstrapped", format!("waiter registered at {w} ms: {other:?}")),
                    }
                }
                return Outcome::pass(false).label("no-contacts");
            }
            let first_resp = log
                .iter()
                .find(|e| e.to == node && e.kind == EvKind::Deliver && matches!(KMsg::decode(&e.bytes), Ok(KMsg { body: KBody::Resp(_), .. })))
                .map(|e| e.ms());
            for (w, at, ok) in &res {
                match first_resp {
                    Some(fr) if *at >= fr => {}
                    _ => return Outcome::violation("bootstrapped-before-any-answer", format!("waiter registered at {w} ms resolved ({ok}) at {at} ms; first response reached the node at {first_resp:?}")),
                }
            }
            if plain && some_answerer {
                for w in &c.waiters {
                    let deadline = (*w as u64).max(t_up) + 660_000;
                    match res.iter().find(|r| r.0 == *w) {
                        Some((_, at, true)) if *at <= deadline => {}
                        other => {
                            return Outcome::violation(
                                "waiter-not-notified",
                                format!("waiter registered at {w} ms: {other:?}; contacts became responsive at {t_up} ms, deadline {deadline} ms ({} waiters, {} resolved)", c.waiters.len(), res.len()),
                            )
                        }
                    }
                }
            }
            let long_outage = c.outages.iter().any(|o| o.0 > 60_000);
            let mut ws = c.waiters.clone();
            ws.sort();
            ws.dedup();
            let nt = (long_outage && ws.len() >= 2) || c.contacts.iter().any(|c| c.as_node && c.as_router) || c.contacts.len() > 9;
            Outcome::pass(nt)
                .label(if plain { "plain-nodes" } else { "with-routers" })
                .label(if c.contacts.iter().any(|c| c.as_node && c.as_router) { "overlap" } else { "no-overlap" })
        })
    }
    fn rule(&self) -> String {
        "builder configurations: 0..40 contacts (or a crowd of 10..17 prompt answering nodes plus 0..3 silent ones, which yields >= 10 good nodes and hence a single bootstrap), each given as node, as router (literal ip:port) or both, each answering (and naming the silent ones and the other answering ones) / silent / unsendable (an address of the other family: send_to fails) / answering with a KRPC error / answering garbage after 0..9 s (answers later than the 2.5 s initial-round timeout, less three send blocks of a busy event loop, count as unresponsive for the deadline); read-only on/off; outage patterns (none, 1..3 outages of 1 ms..30 min with up-times from 1 s, flapping 4..12 times with 1..2 s up-times, one outage of 10 min..2 h) during which no contact answers; 0..12 bootstrapped() callers at times 0..50 min, optionally 1..3 more callers that drop their future after 1 ms..60 s while the others keep waiting; answering contacts that send every reply twice; optionally (serving nodes) a stranger pinging every 0.3..1.5 s with replies that take 10..70 % of the period to send, and get_state() polled every 97 ms (commands and state changes pile up behind a busy event loop). Oracle: API liveness sampled ~400 times over the run; no contacts => waiters true at once and no traffic; contacts => no waiter resolves before the first response reaches the node; plain nodes with an answering contact => every waiter true by max(call, network-up) + 660 s. Non-trivial: an outage > 60 s with >= 2 distinct waiter times, or a router/node overlap, or > 9 contacts".into()
    }
    fn sample(&self, c: &Case) -> serde_json::Value {
        serde_json::json!({"contacts": c.contacts.iter().take(6).map(|x| format!("{:?}/{}{}", x.kind, if x.as_node {"N"} else {""}, if x.as_router {"R"} else {""})).collect::<Vec<_>>(), "n_contacts": c.contacts.len(), "outages": c.outages, "waiters": c.waiters})
    }
}

pub fn spec() -> PropertySpec {
    PropertySpec {
        id: "C15",
        stages: vec![Box::new(Boot)],
        assumptions: vec![
            "Routers are literal ip:port strings (resolved by tokio without network).".into(),
            "'About 11 minutes' is asserted as 660 virtual seconds after max(call time, time the contacts become responsive for good).".into(),
        ],
        explanation: "Oracle: resolution times of bootstrapped() futures and API liveness under virtual time; wire log for 'sends nothing' and 'first response'.".into(),
    }
}
