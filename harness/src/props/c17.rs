//! C17 — every datagram the node emits fits its peers' 1500-byte receive buffer.

use super::single::fam_addr;
use crate::bcodec::*;
use crate::engine::*;
use crate::sim::*;
use crate::world::*;
use proptest::collection::vec;
use proptest::prelude::*;
use serde::{Deserialize, Serialize};
use std::net::SocketAddr;
use std::time::Duration;

#[derive(Clone, Debug, Serialize, Deserialize)]
pub struct Q {
    /// 0 ping, 1 find_node, 2 get_peers (stored hash), 3 get_peers (other hash), 4 announce
    kind: u8,
    want: KWant,
    tid_len: u8,
    src_v6: bool,
}

#[derive(Clone, Debug, Serialize, Deserialize)]
pub struct Case {
    node_v6: bool,
    /// peers announced on the one info-hash
    k: u16,
    /// how many of them (per cent) come from IPv6 sources
    v6_share: u8,
    /// the IPv6 sources announce first (else the IPv4 ones)
    #[serde(default)]
    v6_first: bool,
    table_v4: u8,
    table_v6: u8,
    queries: Vec<Q>,
}

pub struct Sizes {
    /// false: C17's size oracle; true: C05's reply discipline on the same worlds (stage `big-store`)
    pub discipline: bool,
}

const HASH: Id = [0x17; 20];

impl Stage for Sizes {
    type Case = Case;
    fn name(&self) -> &'static str {
        if self.discipline {
            "big-store"
        } else {
            "sizes"
        }
    }
    fn cases(&self, tier: Tier) -> u32 {
        tier.pick(1500, 200_000)
    }
    fn strategy(&self, _t: Tier) -> BoxedStrategy<Case> {
        let q = (0u8..5, super::c13::want(), prop_oneof![Just(0u8), Just(2u8), Just(8u8), 0u8..=32, Just(32u8)], any::<bool>())
            .prop_map(|(kind, want, tid_len, src_v6)| Q { kind, want, tid_len, src_v6 });
        (
            any::<bool>(),
            prop_oneof![2 => 0u16..30, 3 => 30u16..160, 2 => 160u16..=500, 1 => Just(500u16)],
            (prop_oneof![Just(0u8), Just(100u8), 0u8..=100, 85u8..100, 1u8..15], any::<bool>()),
            prop_oneof![4 => 0u8..=16, 1 => 60u8..=110],
            prop_oneof![6 => 0u8..=8, 1 => 40u8..=70],
            vec(q, 3..14),
        )
            .prop_map(|(node_v6, k, (v6_share, v6_first), table_v4, table_v6, queries)| Case { node_v6, k, v6_share, v6_first, table_v4, table_v6, queries })
            .boxed()
    }
    fn run(&self, c: &Case) -> Outcome {
        let rt = paused_rt(3);
        rt.block_on(async {
            let net = SimNet::new(Box::new(Instant0));
            let node = fam_addr(c.node_v6, 1, 6881);
            let node_id: Id = [0x71; 20];
            // table: contacts of both families, all naming each other
            let mut contacts: Vec<(Id, SocketAddr)> = vec![];
            // ids: 8 per bucket (bit i/8 of the node id flipped, distinct tails), so that all of them
            // fit the routing table however many there are
            let spread = |i: u8, salt: u8| -> Id {
                let mut id = node_id;
                let bit = (i / 8) as usize;
                id[bit / 8] ^= 0x80 >> (bit % 8);
                id[10] = salt;
                id[11] = i;
                id[19] = i.wrapping_mul(37) ^ salt;
                id
            };
            for i in 0..c.table_v4 {
                contacts.push((spread(i, 4), fam_addr(false, 100 + i as u16, 7000)));
            }
            for i in 0..c.table_v6 {
                contacts.push((spread(i, 6), fam_addr(true, 100 + i as u16, 7000)));
            }
            for (id, a) in &contacts {
                spawn_simple_contact(&net, *a, *id, contacts.clone(), 3);
            }
            let dht = start_node(&net, &NodeCfg { addr: node, id: node_id, read_only: false, nodes: contacts.iter().map(|c| c.1).collect(), routers: vec![], announce_port: None });
            let _ = within(Duration::from_secs(400), dht.bootstrapped()).await;
            if contacts.len() > 30 {
                // the bootstrap only meets part of a large neighbourhood; a few lookups and two
                // minutes of refresh rounds bring the rest (named in answers) into the table
                use futures_util::StreamExt;
                for k in 0..4u8 {
                    let mut s = dht.search(btdht::InfoHash::from([k.wrapping_mul(67) ^ 0x5c; 20]), false);
                    let _ = within(Duration::from_secs(30), async { while s.next().await.is_some() {} }).await;
                }
                tokio::time::sleep(Duration::from_secs(120)).await;
            }
            if std::env::var_os("VERIF_DEBUG").is_some() {
                eprintln!("after bootstrap at {} ms: {:?}", net.now_ms(), within(Duration::from_secs(1), dht.get_state()).await);
            }
            let solo = super::single::Solo { net: net.clone(), node, node_id, dht: Some(dht), v6: c.node_v6 };
            // store k peers on one hash
            for i in 0..c.k {
                let pos = i as u32 * 100 / c.k.max(1) as u32;
                let v6 = if c.v6_first { pos < c.v6_share as u32 } else { pos >= 100 - c.v6_share as u32 };
                let src = fam_addr(v6, 1000 + i, 5000);
                let tok = match solo.get_peers(src, &HASH, KWant::Absent, b"t").await {
                    Ok(r) => r.token.unwrap_or_default(),
                    Err(_) => continue, // reply discipline is C05's subject; sizes are checked below from the log
                };
                let _ = solo.announce(src, &HASH, None, &tok, b"a").await;
            }
            // queries
            for (n, q) in c.queries.iter().enumerate() {
                let src = fam_addr(q.src_v6, 3000 + n as u16, 5100);
                let tid: Vec<u8> = (0..q.tid_len).map(|i| i.wrapping_mul(31).wrapping_add(n as u8)).collect();
                let id = vec![0x99u8; 20];
                let body = match q.kind {
                    0 => KQuery::Ping { id },
                    1 => KQuery::FindNode { id, target: HASH.to_vec(), want: q.want },
                    2 => KQuery::GetPeers { id, info_hash: HASH.to_vec(), want: q.want },
                    3 => KQuery::GetPeers { id, info_hash: vec![0x18; 20], want: q.want },
                    _ => KQuery::Announce { id, info_hash: HASH.to_vec(), port: Some(1), token: vec![0; 20] },
                };
                let is_get_peers = matches!(body, KQuery::GetPeers { .. });
                let method = body.method();
                let replies = solo.ask(src, &KMsg { tid: tid.clone(), body: KBody::Query(body) }).await;
                if self.discipline {
                    let what = format!("query #{n} ({method}, want {:?}, {}-byte tid, requester v6={}) with {} peers stored", q.want, q.tid_len, q.src_v6, c.k);
                    if replies.len() != 1 {
                        return Outcome::violation(if replies.is_empty() { "no-reply" } else { "several-replies" }, format!("{what}: {} replies", replies.len()));
                    }
                    match &replies[0] {
                        Ok(m) if m.tid != tid => return Outcome::violation("tid-not-echoed", what),
                        Ok(KMsg { body: KBody::Resp(r), .. }) => {
                            if r.id != node_id {
                                return Outcome::violation("wrong-id-in-reply", what);
                            }
                            if is_get_peers {
                                if r.token.as_ref().map(|t| t.len()) != Some(20) {
                                    return Outcome::violation("token-missing-or-wrong-length", format!("{what}: token {:?}", r.token.as_ref().map(|t| t.len())));
                                }
                                if let Some(v) = r.values.iter().find(|v| v.is_ipv6() != q.src_v6) {
                                    return Outcome::violation("value-of-other-family", format!("{what}: {v}"));
                                }
                            } else if r.token.is_some() || !r.values.is_empty() {
                                return Outcome::violation("extra-fields", what);
                            }
                        }
                        Ok(KMsg { body: KBody::Error { code, .. }, .. }) if method == "announce_peer" && *code == 203 => {}
                        Ok(m) => return Outcome::violation("wrong-reply", format!("{what}: {:?}", m.body)),
                        Err(b) => return Outcome::violation("undecodable-reply", format!("{what}: {} bytes", b.len())),
                    }
                    continue;
                }
                for r in replies {
                    if let Err(bytes) = r {
                        if bytes.len() <= 1500 {
                            return Outcome::violation("undecodable-reply", format!("query #{n} {q:?}: reply of {} bytes does not decode: {}", bytes.len(), super::c13::show(&bytes)));
                        }
                    }
                }
            }
            if self.discipline {
                return Outcome::pass(c.k >= 100).label(match c.k { 0..=29 => "k<30", 30..=159 => "k:30-159", _ => "k>=160" });
            }
            let over: Vec<_> = net.oversize().into_iter().filter(|o| o.1 == node).collect();
            if let Some((t, _, to, len)) = over.iter().max_by_key(|o| o.3) {
                // what was it?
                let log = net.log();
                let what = log
                    .iter()
                    .find(|e| e.from == node && e.bytes.len() == *len)
                    .map(|e| match parse(&e.bytes).ok().and_then(|b| KMsg::from_b(&b).ok()) {
                        Some(KMsg { body: KBody::Resp(r), .. }) => format!("response with {} values, {} nodes, {} nodes6", r.values.len(), r.nodes.len(), r.nodes6.len()),
                        Some(m) => format!("{:?}", m.body).chars().take(80).collect(),
                        None => "undecodable".into(),
                    })
                    .unwrap_or_default();
                let kind = if what.starts_with("response with") { "oversize-get-peers-reply" } else { "oversize-datagram" };
                return Outcome::violation(kind, format!("{} datagrams over 1500 bytes; largest: {len} bytes to {to} at {:?}: {what} (k={} peers stored)", over.len(), t, c.k));
            }
            Outcome::pass(c.k >= 100).label(match c.k { 0..=29 => "k<30", 30..=159 => "k:30-159", _ => "k>=160" })
        })
    }
    fn rule(&self) -> String {
        if self.discipline {
            return "C17's worlds (one real serving node, 0..180 table nodes of both families, k in 0..500 peers announced on one info-hash from distinct v4/v6 sources) with C05's oracle: each of 3..13 queries of every kind (want absent/n4/n6/both, tid length 0..32, requester of either family) gets exactly one reply with the echoed tid and the node's id; get_peers replies carry a 20-byte token and only values of the requester's family; others no token/values; announce with a bad token is refused with 203. Non-trivial: k >= 100".into();
        }
        "one real serving node (v4/v6) whose table holds 0..16 (20 %: 60..110) v4 and 0..8 (15 %: 40..70) v6 contacts, 8 per bucket; k in 0..500 peers announced on one info-hash from distinct v4/v6 sources (either family first) with valid tokens; then 3..13 queries of every kind (want absent/n4/n6/both, tid length 0..32, requester of either family). Oracle: every datagram the node handed to the network is <= 1500 bytes and every reply decodes with the independent codec. Non-trivial: k >= 100 (reply is size-limited, not content-limited)".into()
    }
}

pub fn spec() -> PropertySpec {
    PropertySpec {
        id: "C17",
        stages: vec![Box::new(Sizes { discipline: false })],
        assumptions: vec!["Transaction ids up to 32 bytes as in the property's quantifier (a tid of ~1300 bytes makes any echo exceed 1500 bytes regardless of the reply's own content).".into()],
        explanation: "Oracle: length of every datagram passed to the socket by the node, from the simulated network's log.".into(),
    }
}
