pub mod c20;

use crate::engine::PropertySpec;

pub fn spec(id: &str) -> Option<PropertySpec> {
    Some(match id {
        "C20" => c20::spec(),
        _ => return None,
    })
}
