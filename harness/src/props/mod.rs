pub mod c01;
pub mod c02;
pub mod c03;
pub mod c04;
pub mod c05;
pub mod c06;
pub mod c07;
pub mod c08;
pub mod c09;
pub mod c10;
pub mod c12;
pub mod c13;
pub mod c14;
pub mod c15;
pub mod c16;
pub mod c17;
pub mod c18;
pub mod c19;
pub mod c20;
pub mod maint;
pub mod searchworld;
pub mod single;
pub mod table_common;

use crate::engine::PropertySpec;

pub fn spec(id: &str) -> Option<PropertySpec> {
    Some(match id {
        "C01" => c01::spec(),
        "C02" => c02::spec(),
        "C03" => c03::spec(),
        "C04" => c04::spec(),
        "C05" => c05::spec(),
        "C06" => c06::spec(),
        "C07" => c07::spec(),
        "C08" => c08::spec(),
        "C09" => c09::spec(),
        "C10" => c10::spec(),
        "C11" => maint::spec_c11(),
        "C12" => c12::spec(),
        "C13" => c13::spec(),
        "C14" => c14::spec(),
        "C15" => c15::spec(),
        "C16" => c16::spec(),
        "C17" => c17::spec(),
        "C18" => c18::spec(),
        "C19" => c19::spec(),
        "C20" => c20::spec(),
        _ => return None,
    })
}
