pub mod c13;
pub mod c20;

use crate::engine::PropertySpec;

pub fn spec(id: &str) -> Option<PropertySpec> {
    Some(match id {
        "C13" => c13::spec(),
        "C20" => c20::spec(),
        _ => return None,
    })
}
