//! Shared generator + interpreter for operation sequences on the real `RoutingTable`
//! (used by C08, C09 component tier).

use crate::engine::idx;
use btdht::verif::{Node, NodeHandle, NodeStatus, RoutingTable};
use btdht::InfoHash;
use proptest::collection::vec;
use proptest::prelude::*;
use serde::{Deserialize, Serialize};
use std::net::SocketAddr;
use std::time::Duration;

pub type Id = [u8; 20];

pub fn lcp(a: &Id, b: &Id) -> usize {
    for i in 0..20 {
        let x = a[i] ^ b[i];
        if x != 0 {
            return i * 8 + x.leading_zeros() as usize;
        }
    }
    160
}

pub fn flip_bit(mut id: Id, bit: usize) -> Id {
    id[bit / 8] ^= 0x80 >> (bit % 8);
    id
}

#[derive(Clone, Debug, Serialize, Deserialize)]
pub enum IdSpec {
    /// share exactly `bit` leading bits with the local id; the tail is derived from `tail`
    Abs { bit: u8, tail: u8 },
    /// like Abs, with bit = (current bucket count - 1) + rel, clamped to 0..=159
    Rel { rel: i8, tail: u8 },
    /// equal to the local id
    Local,
    /// the all-zero id of the bucket filler
    Zero,
}

#[derive(Clone, Debug, Serialize, Deserialize)]
pub enum Op {
    Offer { good: bool, id: IdSpec, addr: u16 },
    /// offer again a node that is currently in a slot (live or dead), k indexes the slot list
    Repeat { good: bool, k: u16 },
    /// offer an existing id under a different address / existing address under another id
    Clash { good: bool, k: u16, addr: u16, same_id: bool, tail: u8 },
    /// a response from a (good) node naming another node: `RoutingTable::add_nodes`, the call the
    /// handler and the bootstrap make for every accepted answer
    Response { id: IdSpec, addr: u16, named: IdSpec, named_addr: u16 },
    QuerySent { k: u16 },
    QueryRecv { k: u16 },
    /// milliseconds
    Advance { ms: u64 },
}

#[derive(Clone, Debug, Serialize, Deserialize)]
pub struct TableCase {
    #[serde(with = "crate::bcodec::hexser")]
    pub local: Vec<u8>,
    /// indices into the address pool
    pub routers: Vec<u16>,
    pub mixed_family: bool,
    pub ops: Vec<Op>,
}

pub const POOL: usize = 40;

pub fn pool_addr(i: u16, mixed: bool) -> SocketAddr {
    let i = idx(i, POOL) as u16;
    if i == 0 {
        // the bucket filler's address
        return "127.0.0.1:0".parse().unwrap();
    }
    if mixed && i % 7 == 3 {
        format!("[fd00::{:x}]:{}", i, 7000 + i).parse().unwrap()
    } else {
        // few distinct IPs, several ports each
        format!("10.0.{}.{}:{}", i % 3, 1 + i / 3, 6000 + (i % 5)).parse().unwrap()
    }
}

pub fn make_id(local: &Id, bit: usize, tail: u8) -> Id {
    let bit = bit.min(159);
    let mut id = flip_bit(*local, bit);
    // randomise everything after `bit` deterministically from `tail`
    let mut x = crate::engine::splitmix(tail as u64 * 0x1234_5678_9abc + bit as u64);
    for b in (bit + 1)..160 {
        if b % 16 == 0 {
            x = crate::engine::splitmix(x);
        }
        if (x >> (b % 16)) & 1 == 1 {
            id[b / 8] ^= 0x80 >> (b % 8);
        }
    }
    id
}

fn idspec() -> impl Strategy<Value = IdSpec> {
    prop_oneof![
        5 => (-3i8..=4, 0u8..6).prop_map(|(rel, tail)| IdSpec::Rel { rel, tail }),
        4 => (0u8..160, 0u8..12).prop_map(|(bit, tail)| IdSpec::Abs { bit, tail }),
        1 => (156u8..160, 0u8..3).prop_map(|(bit, tail)| IdSpec::Abs { bit, tail }),
        1 => Just(IdSpec::Local),
        1 => Just(IdSpec::Zero),
    ]
}

pub fn op() -> impl Strategy<Value = Op> {
    let dt = prop_oneof![
        3 => Just(1_000u64),
        2 => 29_000u64..31_000,
        3 => 14 * 60_000u64..16 * 60_000,
        1 => Just(3_600_000u64),
        1 => 1u64..5_000,
        // very long pauses: 2^k ms +/- 5 s, k = 24..40 (2^32 ms = 49.7 days), also minus 15 min
        1 => (24u32..=40, 0u64..10_000, any::<bool>()).prop_map(|(k, d, m)| (1u64 << k) + d - 5_000 - if m { 15 * 60_000 } else { 0 }),
    ];
    prop_oneof![
        10 => (any::<bool>(), idspec(), any::<u16>()).prop_map(|(good, id, addr)| Op::Offer { good, id, addr }),
        3 => (idspec(), any::<u16>(), idspec(), any::<u16>()).prop_map(|(id, addr, named, named_addr)| Op::Response { id, addr, named, named_addr }),
        2 => (any::<bool>(), any::<u16>()).prop_map(|(good, k)| Op::Repeat { good, k }),
        1 => (any::<bool>(), any::<u16>(), any::<u16>(), any::<bool>(), 0u8..6)
            .prop_map(|(good, k, addr, same_id, tail)| Op::Clash { good, k, addr, same_id, tail }),
        2 => any::<u16>().prop_map(|k| Op::QuerySent { k }),
        2 => any::<u16>().prop_map(|k| Op::QueryRecv { k }),
        2 => dt.prop_map(|ms| Op::Advance { ms }),
    ]
}

pub fn table_case(max_ops: usize) -> impl Strategy<Value = TableCase> {
    (
        prop_oneof![3 => vec(any::<u8>(), 20), 1 => Just(vec![0u8; 20]), 1 => Just(vec![0xff; 20])],
        vec(any::<u16>(), 0..=3),
        prop::bool::weighted(0.2),
        vec(op(), 1..max_ops),
        // deep tables: a prefix of offers that fills bucket after bucket (8 nodes sharing exactly
        // b prefix bits, for b = 0..depth), which drives the table to `depth`+1 buckets -- up to
        // the maximum of 160 -- before the free-form operations start
        prop_oneof![32 => Just(0u8), 6 => 1u8..40, 1 => 40u8..150, 1 => 150u8..=160],
        any::<u64>(),
    )
        .prop_map(|(local, routers, mixed_family, mut ops, depth, salt)| {
            if depth > 0 {
                let mut pre = Vec::with_capacity(depth as usize * 8);
                for b in 0..depth.min(160) {
                    for k in 0..8u8 {
                        let x = crate::engine::splitmix(salt ^ ((b as u64) << 8) ^ k as u64);
                        pre.push(Op::Offer { good: x % 4 != 0, id: IdSpec::Abs { bit: b.min(159), tail: 20 + k }, addr: (x >> 8) as u16 });
                    }
                }
                pre.extend(ops);
                ops = pre;
            }
            TableCase { local, routers, mixed_family, ops }
        })
}

// ---------------------------------------------------------------------------------------------

#[derive(Clone, Copy, Debug, PartialEq, Eq, PartialOrd, Ord)]
pub enum St {
    Bad,
    Questionable,
    Good,
}

impl From<NodeStatus> for St {
    fn from(s: NodeStatus) -> St {
        match s {
            NodeStatus::Bad => St::Bad,
            NodeStatus::Questionable => St::Questionable,
            NodeStatus::Good => St::Good,
        }
    }
}

#[derive(Clone, Debug, PartialEq, Eq)]
pub struct Slot {
    pub id: Id,
    pub addr: SocketAddr,
    pub st: St,
}

impl Slot {
    pub fn live(&self) -> bool {
        self.st != St::Bad
    }
    pub fn handle(&self) -> (Id, SocketAddr) {
        (self.id, self.addr)
    }
}

pub type Dump = Vec<Vec<Slot>>;

pub fn dump(t: &RoutingTable) -> Dump {
    t.buckets()
        .map(|b| {
            b.iter()
                .map(|n| Slot { id: n.id().into(), addr: n.addr(), st: n.status().into() })
                .collect()
        })
        .collect()
}

pub fn live_of(d: &Dump) -> Vec<(usize, Slot)> {
    let mut v = vec![];
    for (i, b) in d.iter().enumerate() {
        for s in b {
            if s.live() {
                v.push((i, s.clone()));
            }
        }
    }
    v
}

/// A resolved operation (what was actually applied).
#[derive(Clone, Debug)]
pub enum Applied {
    Offer { good: bool, id: Id, addr: SocketAddr },
    /// add_nodes(responder, [named]): an offer of the responder as good followed by an offer of
    /// the named node as hearsay
    Response { id: Id, addr: SocketAddr, named: Id, named_addr: SocketAddr },
    QuerySent { id: Id, addr: SocketAddr, found: bool },
    QueryRecv { id: Id, addr: SocketAddr, found: bool },
    Advance { ms: u64 },
    Nothing,
}

pub fn to_id(v: &[u8]) -> Id {
    let mut a = [0u8; 20];
    a.copy_from_slice(&v[..20]);
    a
}

pub struct Interp {
    pub table: RoutingTable,
    pub local: Id,
    pub mixed: bool,
    pub routers: Vec<SocketAddr>,
}

impl Interp {
    pub fn new(c: &TableCase) -> Interp {
        let local = to_id(&c.local);
        let mut table = RoutingTable::new(InfoHash::from(local));
        let routers: Vec<SocketAddr> = c.routers.iter().map(|r| pool_addr(*r, c.mixed_family)).collect();
        table.routers = routers.iter().copied().collect();
        Interp { table, local, mixed: c.mixed_family, routers }
    }

    fn slots(&self) -> Vec<Slot> {
        dump(&self.table).into_iter().flatten().filter(|s| !(s.id == [0u8; 20] && s.st == St::Bad && s.addr.port() == 0)).collect()
    }

    pub async fn apply(&mut self, op: &Op) -> Applied {
        match op {
            Op::Offer { good, id, addr } => {
                let nb = self.table.buckets().count();
                let id = match id {
                    IdSpec::Abs { bit, tail } => make_id(&self.local, *bit as usize, *tail),
                    IdSpec::Rel { rel, tail } => {
                        let bit = (nb as i32 - 1 + *rel as i32).clamp(0, 159) as usize;
                        make_id(&self.local, bit, *tail)
                    }
                    IdSpec::Local => self.local,
                    IdSpec::Zero => [0u8; 20],
                };
                let addr = pool_addr(*addr, self.mixed);
                self.offer(*good, id, addr);
                Applied::Offer { good: *good, id, addr }
            }
            Op::Response { id, addr, named, named_addr } => {
                let id = self.resolve(id);
                let named = self.resolve(named);
                let (addr, named_addr) = (pool_addr(*addr, self.mixed), pool_addr(*named_addr, self.mixed));
                // first half through add_node so that the caller can check it as an ordinary offer
                self.offer(true, id, addr);
                Applied::Response { id, addr, named, named_addr }
            }
            Op::Repeat { good, k } => {
                let s = self.slots();
                if s.is_empty() {
                    return Applied::Nothing;
                }
                let x = &s[idx(*k, s.len())];
                self.offer(*good, x.id, x.addr);
                Applied::Offer { good: *good, id: x.id, addr: x.addr }
            }
            Op::Clash { good, k, addr, same_id, tail } => {
                let s = self.slots();
                if s.is_empty() {
                    return Applied::Nothing;
                }
                let x = &s[idx(*k, s.len())];
                let (id, a) = if *same_id {
                    (x.id, pool_addr(*addr, self.mixed))
                } else {
                    let bit = lcp(&self.local, &x.id).min(159);
                    (make_id(&self.local, bit, *tail), x.addr)
                };
                self.offer(*good, id, a);
                Applied::Offer { good: *good, id, addr: a }
            }
            Op::QuerySent { k } | Op::QueryRecv { k } => {
                let s = self.slots();
                if s.is_empty() {
                    return Applied::Nothing;
                }
                let x = &s[idx(*k, s.len())];
                let h = NodeHandle::new(InfoHash::from(x.id), x.addr);
                let found = match self.table.find_node_mut(&h) {
                    Some(n) => {
                        if matches!(op, Op::QuerySent { .. }) {
                            n.local_request()
                        } else {
                            n.remote_request()
                        }
                        true
                    }
                    None => false,
                };
                if matches!(op, Op::QuerySent { .. }) {
                    Applied::QuerySent { id: x.id, addr: x.addr, found }
                } else {
                    Applied::QueryRecv { id: x.id, addr: x.addr, found }
                }
            }
            Op::Advance { ms } => {
                tokio::time::advance(Duration::from_millis(*ms)).await;
                Applied::Advance { ms: *ms }
            }
        }
    }

    fn resolve(&self, id: &IdSpec) -> Id {
        let nb = self.table.buckets().count();
        match id {
            IdSpec::Abs { bit, tail } => make_id(&self.local, *bit as usize, *tail),
            IdSpec::Rel { rel, tail } => make_id(&self.local, (nb as i32 - 1 + *rel as i32).clamp(0, 159) as usize, *tail),
            IdSpec::Local => self.local,
            IdSpec::Zero => [0u8; 20],
        }
    }

    /// second half of a Response: the real add_nodes call (responder again + the named node)
    pub fn respond(&mut self, id: Id, addr: SocketAddr, named: Id, named_addr: SocketAddr) {
        self.table.add_nodes(Node::as_good(InfoHash::from(id), addr), &[NodeHandle::new(InfoHash::from(named), named_addr)]);
    }

    fn offer(&mut self, good: bool, id: Id, addr: SocketAddr) {
        let n = if good {
            Node::as_good(InfoHash::from(id), addr)
        } else {
            Node::as_questionable(InfoHash::from(id), addr)
        };
        self.table.add_node(n);
    }
}

pub fn paused_rt(seed: u64) -> tokio::runtime::Runtime {
    tokio::runtime::Builder::new_current_thread()
        .enable_time()
        .start_paused(true)
        .rng_seed(tokio::runtime::RngSeed::from_bytes(&seed.to_le_bytes()))
        .build()
        .expect("runtime")
}
