//! C16 — a search requested before bootstrap finishes is carried out, not dropped.

use super::single::fam_addr;
use crate::bcodec::Id;
use crate::engine::*;
use crate::sim::*;
use crate::world::*;
use btdht::{InfoHash, MainlineDht};
use futures_util::StreamExt;
use proptest::collection::vec;
use proptest::prelude::*;
use serde::{Deserialize, Serialize};
use std::collections::BTreeSet;
use std::net::SocketAddr;
use std::time::Duration;

#[derive(Clone, Debug, Serialize, Deserialize)]
pub struct Early {
    /// 0: at start (before the first datagram); 1: after `ms` ms; 2: `ms` ms (scaled to 0..100)
    /// before the twin's bootstrap completion; 3: right at completion; 4: `ms` ms after;
    /// 5: at ms/3000 of (outage + 10 s), i.e. while the network is down or shortly after;
    /// 6: ms/8 ms around the twin's completion time (-187..+187 ms)
    mode: u8,
    ms: u16,
    announce: bool,
}

#[derive(Clone, Debug, Serialize, Deserialize)]
pub struct Case {
    v6: bool,
    /// serving nodes of the existing network (3..6), ids derived from seeds
    net_ids: Vec<u8>,
    /// how many of the network's nodes the fresh node gets as contacts (at least 1)
    contacts: u8,
    /// additional silent contacts (lengthen the bootstrap)
    silent: u8,
    lat: Vec<u16>,
    /// the fresh node's traffic is lost during its first `outage_ms` ms (failed bootstrap
    /// attempts, back-off, retry)
    #[serde(default)]
    outage_ms: u32,
    early: Vec<Early>,
    /// a stranger pings the fresh node (and its twin) every `.0` ms; each reply takes `.1` ms to send
    #[serde(default)]
    busy: Option<(u16, u16)>,
    rt_seed: u64,
}

/// slow sends of two nodes (the fresh node and its twin) towards one address
struct BusyTwo<P: Policy> {
    inner: P,
    a: SocketAddr,
    b: SocketAddr,
    to: SocketAddr,
    ms: u64,
}

impl<P: Policy> Policy for BusyTwo<P> {
    fn fate(&mut self, d: &Dgram) -> Fate {
        self.inner.fate(d)
    }
    fn send_block(&mut self, d: &Dgram) -> Duration {
        if (d.from == self.a || d.from == self.b) && d.to == self.to {
            Duration::from_millis(self.ms)
        } else {
            Duration::ZERO
        }
    }
}

pub struct EarlySearch;

fn mk_id(seed: u8, salt: u8) -> Id {
    let mut id = [0u8; 20];
    let mut x = splitmix(seed as u64 * 256 + salt as u64);
    for b in id.iter_mut() {
        x = splitmix(x);
        *b = x as u8;
    }
    id
}

const H: Id = [0x16; 20];

async fn collect(dht: &MainlineDht, announce: bool, limit: Duration) -> Option<BTreeSet<SocketAddr>> {
    let mut s = dht.search(InfoHash::from(H), announce);
    let mut out = BTreeSet::new();
    let r = within(limit, async {
        while let Some(a) = s.next().await {
            out.insert(a);
        }
    })
    .await;
    r.map(|_| out)
}

impl Stage for EarlySearch {
    type Case = Case;
    fn name(&self) -> &'static str {
        "early-search"
    }
    fn cases(&self, tier: Tier) -> u32 {
        tier.pick(1500, 100_000)
    }
    fn strategy(&self, _t: Tier) -> BoxedStrategy<Case> {
        let early = (prop_oneof![3 => Just(0u8), 2 => Just(1u8), 2 => Just(2u8), 1 => Just(3u8), 1 => Just(4u8), 3 => Just(5u8), 3 => Just(6u8)], 0u16..3000, any::<bool>())
            .prop_map(|(mode, ms, announce)| Early { mode, ms, announce });
        (any::<bool>(), vec(any::<u8>(), 3..=6), 1u8..=6, 0u8..4, vec(prop_oneof![Just(0u16), 0u16..50, 0u16..400], 1..32), prop_oneof![3 => Just(0u32), 2 => 100u32..8_000, 1 => 8_000u32..40_000], vec(early, 1..=6), any::<u64>(), proptest::option::weighted(0.4, (300u16..1500, 10u16..70).prop_map(|(period, pct)| (period, (period as u32 * pct as u32 / 100) as u16))))
            .prop_map(|(v6, net_ids, contacts, silent, lat, outage_ms, early, rt_seed, busy)| Case { v6, net_ids, contacts, silent, lat, outage_ms, early, busy, rt_seed })
            .boxed()
    }
    fn run(&self, c: &Case) -> Outcome {
        let rt = paused_rt(c.rt_seed);
        rt.block_on(async {
            // latency table + per-address blackout windows (address -> traffic lost until t)
            let blocked: std::sync::Arc<std::sync::Mutex<std::collections::HashMap<SocketAddr, Duration>>> = Default::default();
            let lat = LatencyTable { table: c.lat.clone() };
            let lat2 = LatencyTable { table: c.lat.clone() };
            let b2 = blocked.clone();
            let b3 = blocked.clone();
            let net = SimNet::new(Box::new(move |d: &Dgram| {
                let b = b2.lock().unwrap();
                for a in [d.from, d.to] {
                    if let Some(until) = b.get(&a) {
                        if d.now < *until {
                            return Fate::Deliver(vec![]);
                        }
                    }
                }
                Fate::Deliver(vec![lat.delay(d)])
            }));
            let pinger = fam_addr(c.v6, 990, 9990);
            if let Some((_, block)) = c.busy {
                let inner = move |d: &Dgram| {
                    let b = b3.lock().unwrap();
                    for a in [d.from, d.to] {
                        if let Some(until) = b.get(&a) {
                            if d.now < *until {
                                return Fate::Deliver(vec![]);
                            }
                        }
                    }
                    Fate::Deliver(vec![lat2.delay(d)])
                };
                net.set_policy(Box::new(BusyTwo { inner, a: fam_addr(c.v6, 500, 6881), b: fam_addr(c.v6, 501, 6881), to: pinger, ms: block as u64 }));
            }
            let m = c.net_ids.len();
            let addrs: Vec<SocketAddr> = (0..m).map(|i| fam_addr(c.v6, 10 + i as u16, 6881)).collect();
            // existing network: everybody knows everybody
            let mut nodes = vec![];
            for i in 0..m {
                let others: Vec<SocketAddr> = addrs.iter().enumerate().filter(|(j, _)| *j != i).map(|(_, a)| *a).collect();
                nodes.push(start_node(&net, &NodeCfg { addr: addrs[i], id: mk_id(c.net_ids[i], i as u8), read_only: false, nodes: others, routers: vec![], announce_port: None }));
            }
            for n in &nodes {
                if within(Duration::from_secs(300), n.bootstrapped()).await != Some(true) {
                    return Outcome::violation("setup-network-not-bootstrapped", "a node of the existing network did not bootstrap within 300 s");
                }
            }
            // node 0 announces H
            if collect(&nodes[0], true, Duration::from_secs(120)).await.is_none() {
                return Outcome::violation("setup-announce-hangs", "announcing search of the existing network does not end");
            }
            // the announce datagrams are sent when the stream ends and need up to the largest latency
            tokio::time::sleep(Duration::from_secs(2)).await;
            // fresh node N and its twin N2
            let k = (c.contacts as usize).clamp(1, m);
            let mut contacts: Vec<SocketAddr> = addrs[..k].to_vec();
            for s in 0..c.silent {
                contacts.push(fam_addr(c.v6, 900 + s as u16, 6881));
            }
            let n_addr = fam_addr(c.v6, 500, 6881);
            let n2_addr = fam_addr(c.v6, 501, 6881);
            blocked.lock().unwrap().insert(n2_addr, net.now() + Duration::from_millis(c.outage_ms as u64));
            if let Some((period, _)) = c.busy {
                spawn_pinger(&net, pinger, n2_addr, net.now_ms() + 7, period as u64, 200);
            }
            let twin = start_node(&net, &NodeCfg { addr: n2_addr, id: mk_id(201, 201), read_only: false, nodes: contacts.clone(), routers: vec![], announce_port: None });
            let start = net.now();
            // learn the bootstrap duration from the twin (same contacts, same latency table)
            let tw = twin.clone();
            let net3 = net.clone();
            let late = tokio::spawn(async move {
                let ok = tw.bootstrapped().await;
                let booted = net3.now();
                (ok, collect(&tw, false, Duration::from_secs(120)).await, booted)
            });
            // run the twin to completion first, then start N on a comparable schedule
            let (ok, r_late, booted) = match within(Duration::from_secs(900), late).await {
                Some(Ok(x)) => x,
                _ => return Outcome::violation("setup-twin-hangs", "twin node did not bootstrap and search within 900 s"),
            };
            let boot_ms = (booted - start).as_millis() as u64;
            if std::env::var_os("VERIF_DEBUG").is_some() {
                eprintln!("twin: ok={ok} r_late={r_late:?} boot_ms={boot_ms}");
                for e in net.log().iter().filter(|e| e.from == n2_addr || e.to == n2_addr || crate::bcodec::KMsg::decode(&e.bytes).map(|m| matches!(m.body, crate::bcodec::KBody::Query(crate::bcodec::KQuery::Announce { .. }) | crate::bcodec::KBody::Error { .. })).unwrap_or(false)) {
                    let d = match crate::bcodec::KMsg::decode(&e.bytes) { Ok(crate::bcodec::KMsg { body: crate::bcodec::KBody::Resp(r), .. }) => format!("RESP token={} values={:?} nodes={}", r.token.is_some(), r.values, r.nodes.len() + r.nodes6.len()), Ok(m) => format!("{:?}", m.body).chars().take(60).collect(), Err(_) => "??".into() };
                    eprintln!("  {} {:?} {} -> {} {}", e.ms(), e.kind, e.from, e.to, d);
                }
            }
            let Some(r_late) = r_late else { return Outcome::violation("late-search-hangs", "a search issued right after bootstrapped() does not end within 120 s") };
            if !ok {
                return Outcome::violation("setup-twin-not-bootstrapped", "twin bootstrapped() returned false");
            }
            let clean = |s: &BTreeSet<SocketAddr>| -> BTreeSet<SocketAddr> { s.iter().filter(|a| **a != n_addr && **a != n2_addr).copied().collect() };
            let r_late = clean(&r_late);

            blocked.lock().unwrap().insert(n_addr, net.now() + Duration::from_millis(c.outage_ms as u64));
            if let Some((period, _)) = c.busy {
                spawn_pinger(&net, pinger, n_addr, net.now_ms() + 7, period as u64, 200);
            }
            let n = start_node(&net, &NodeCfg { addr: n_addr, id: mk_id(200, 200), read_only: false, nodes: contacts.clone(), routers: vec![], announce_port: None });
            let n_start = net.now();
            let mut handles = vec![];
            let mut strictly_early = false;
            for e in &c.early {
                let at_ms: u64 = match e.mode {
                    0 => 0,
                    1 => e.ms as u64,
                    2 => boot_ms.saturating_sub(1 + e.ms as u64 % 100),
                    3 => boot_ms,
                    5 => e.ms as u64 * (c.outage_ms as u64 + 10_000) / 3000,
                    6 => (boot_ms + e.ms as u64 / 8).saturating_sub(187),
                    _ => boot_ms + e.ms as u64,
                };
                if at_ms + 5 < boot_ms {
                    strictly_early = true;
                }
                let dht = n.clone();
                let net2 = net.clone();
                let announce = e.announce;
                handles.push((at_ms, announce, tokio::spawn(async move {
                    net2.sleep_until(n_start + Duration::from_millis(at_ms)).await;
                    collect(&dht, announce, Duration::from_secs(1200)).await
                })));
            }
            let mut any_announce = false;
            for (at_ms, announce, h) in handles {
                let got = match within(Duration::from_secs(2400), h).await {
                    Some(Ok(Some(s))) => clean(&s),
                    _ => return Outcome::violation("early-search-hangs", format!("search issued {at_ms} ms after start (bootstrap takes ~{boot_ms} ms) does not end within 1200 s")),
                };
                any_announce |= announce;
                if got != r_late && std::env::var_os("VERIF_DEBUG").is_some() {
                    eprintln!("N: got={got:?} at_ms={at_ms} n_start={:?} state={:?} contacts={:?}", n_start, within(Duration::from_secs(5), n.get_state()).await, within(Duration::from_secs(5), n.load_contacts()).await);
                    for e in net.log().iter().filter(|e| e.from == n_addr || e.to == n_addr) {
                        let d = match crate::bcodec::KMsg::decode(&e.bytes) { Ok(crate::bcodec::KMsg { body: crate::bcodec::KBody::Resp(r), .. }) => format!("RESP token={} values={:?} nodes={:?}", r.token.is_some(), r.values, r.nodes.iter().map(|n| n.1).collect::<Vec<_>>()), Ok(m) => format!("{:?}", m.body).chars().take(70).collect(), Err(_) => "??".into() };
                        eprintln!("  {} {:?} {} -> {} {}", e.ms(), e.kind, e.from, e.to, d);
                    }
                }
                if got != r_late {
                    let kind = if got.is_empty() { "early-search-empty" } else { "early-search-differs" };
                    return Outcome::violation(kind, format!("search issued {at_ms} ms after start (bootstrap completes after ~{boot_ms} ms) yielded {got:?}; the same search right after bootstrapped() yields {r_late:?}"));
                }
            }
            if any_announce {
                // N announced itself: a third node must find it (once the announce datagrams,
                // which are sent when the stream ends, have had time to arrive)
                tokio::time::sleep(Duration::from_secs(2)).await;
                match collect(&nodes[m - 1], false, Duration::from_secs(120)).await {
                    Some(s) if s.contains(&n_addr) => {}
                    other => return Outcome::violation("early-announce-not-carried-out", format!("an early search with announce was issued, but a later search from another node yields {other:?} (expected it to contain {n_addr})")),
                }
            }
            Outcome::pass(strictly_early && !r_late.is_empty()).label(if strictly_early { "strictly-early" } else { "not-early" }).label(if c.outage_ms > 0 { "initial-outage" } else { "no-outage" })
        })
    }
    fn rule(&self) -> String {
        "a network of 3..6 real serving nodes (all know each other) in which one node has announced info-hash H; a fresh node N with 1..6 of them plus 0..3 silent addresses as contacts, per-datagram latencies from a generated table (0..400 ms), optionally an initial outage of 0.1..40 s during which all of N's traffic is lost (failed attempts, back-off, retry); 1..4 searches for H issued on N at: start, shortly after, just before / at / after the bootstrap completion time learnt from an identically configured twin; at a generated point of the outage/back-off window, or within 190 ms of the completion time; optionally a stranger pings the fresh node every 0.3..1.5 s and each reply takes 10..70 % of that period to send (busy event loop, so that searches and the completion pile up); with and without announce. Oracle (metamorphic): each early search yields the same address set as the twin's search issued right after bootstrapped(); an early announcing search makes N findable by a third node. Non-trivial: a search issued >5 ms before bootstrap completion and a non-empty late result".into()
    }
}


// ---------------------------------------------------------------------------------------------
// Scripted world: the way to the peers opens only late in the bootstrap

#[derive(Clone, Debug, Serialize, Deserialize)]
pub struct Case2 {
    v6: bool,
    /// "door" contacts: answer find_node after this many ms, naming everybody; their get_peers
    /// answers carry a token and (only if `doors_reveal`) the holders
    doors: Vec<u16>,
    /// "holder" contacts: hold the peers (get_peers answered at once, with values) but answer
    /// find_node only after this many ms (< 2.4 s), so the bootstrap completes late
    holders: Vec<u16>,
    doors_reveal: bool,
    early: Vec<Early>,
    busy: Option<(u16, u16)>,
    rt_seed: u64,
    /// 0: doors and holders are the node's starting nodes. 1..2: the node is configured with that
    /// many *routers* only (literal ip:port); the routers name 11..13 doors and the holders, which
    /// all answer find_node within 250 ms (a router-only node needs 10 good nodes to complete)
    #[serde(default)]
    routers: u8,
}

pub struct ScriptedEarly;

impl Stage for ScriptedEarly {
    type Case = Case2;
    fn name(&self) -> &'static str {
        "late-door"
    }
    fn cases(&self, tier: Tier) -> u32 {
        tier.pick(1500, 100_000)
    }
    fn strategy(&self, _t: Tier) -> BoxedStrategy<Case2> {
        let early = (prop_oneof![2 => Just(0u8), 4 => Just(1u8), 2 => Just(2u8), 1 => Just(3u8), 1 => Just(4u8), 2 => Just(6u8)], 0u16..3000, any::<bool>())
            .prop_map(|(mode, ms, announce)| Early { mode, ms, announce });
        (
            any::<bool>(),
            vec(prop_oneof![Just(0u16), 0u16..300], 1..=3),
            vec(prop_oneof![200u16..1900, 1000u16..1900], 1..=2),
            prop::bool::weighted(0.3),
            vec(early, 1..=5),
            proptest::option::weighted(0.3, (300u16..1200, 10u16..40).prop_map(|(period, pct)| (period, (period as u32 * pct as u32 / 100) as u16))),
            any::<u64>(),
            prop_oneof![3 => Just(0u8), 1 => Just(1u8), 1 => Just(2u8)],
        )
            .prop_map(|(v6, doors, holders, doors_reveal, early, busy, rt_seed, routers)| Case2 { v6, doors, holders, doors_reveal, early, busy, rt_seed, routers })
            .boxed()
    }
    fn run(&self, c: &Case2) -> Outcome {
        use crate::bcodec::*;
        let rt = paused_rt(c.rt_seed);
        rt.block_on(async {
            let n_addr = fam_addr(c.v6, 500, 6881);
            let n2_addr = fam_addr(c.v6, 501, 6881);
            let pinger = fam_addr(c.v6, 990, 9990);
            let net = SimNet::new(Box::new(BusyTwo { inner: Instant0, a: n_addr, b: n2_addr, to: pinger, ms: c.busy.map(|b| b.1 as u64).unwrap_or(0) }));
            // router mode: 11..13 doors, everybody answers find_node within 250 ms
            let (doors, holder_delays): (Vec<u16>, Vec<u16>) = if c.routers > 0 {
                ((0..10 + c.doors.len()).map(|i| c.doors[i % c.doors.len()].min(250)).collect(), c.holders.iter().map(|d| (*d).min(250)).collect())
            } else {
                (c.doors.clone(), c.holders.clone())
            };
            let nd = doors.len();
            let nh = holder_delays.len();
            let all: Vec<(Id, SocketAddr)> = (0..nd + nh).map(|i| (mk_id(50 + i as u8, 7), fam_addr(c.v6, 10 + i as u16, 6881))).collect();
            let holders: Vec<(Id, SocketAddr)> = all[nd..].to_vec();
            let mut expected: BTreeSet<SocketAddr> = BTreeSet::new();
            for i in 0..nd + nh {
                let (id, addr) = all[i];
                let others: Vec<(Id, SocketAddr)> = all.iter().enumerate().filter(|(j, _)| *j != i).map(|(_, x)| *x).collect();
                let is_holder = i >= nd;
                let fn_delay = if is_holder { holder_delays[i - nd] } else { doors[i] } as u64;
                let values: Vec<SocketAddr> = if is_holder { (0..2).map(|k| fam_addr(c.v6, 700 + (i * 4 + k) as u16, 5000 + k as u16)).collect() } else { vec![] };
                expected.extend(values.iter().copied());
                let reveal: Vec<(Id, SocketAddr)> = if is_holder { others.clone() } else if c.doors_reveal || c.routers > 0 { holders.clone() } else { vec![] };
                spawn_puppet(&net, addr, move |_raw, msg, from, _now| {
                    let Some(m) = msg else { return vec![] };
                    let KBody::Query(q) = &m.body else { return vec![] };
                    match q {
                        KQuery::Ping { .. } | KQuery::Announce { .. } => vec![Out::now(from, &resp(&m.tid, KResp { id: id.to_vec(), ..Default::default() }))],
                        KQuery::FindNode { .. } => {
                            let (nodes, nodes6) = node_lists(&others);
                            vec![Out::after(fn_delay, from, &resp(&m.tid, KResp { id: id.to_vec(), nodes, nodes6, ..Default::default() }))]
                        }
                        KQuery::GetPeers { .. } => {
                            let (nodes, nodes6) = node_lists(&reveal);
                            vec![Out::now(from, &resp(&m.tid, KResp { id: id.to_vec(), nodes, nodes6, token: Some(vec![i as u8; 8]), values: values.clone() }))]
                        }
                    }
                });
            }
            let mut contacts: Vec<SocketAddr> = all.iter().map(|x| x.1).collect();
            let mut routers: Vec<String> = vec![];
            for r in 0..c.routers {
                let addr = fam_addr(c.v6, 40 + r as u16, 6881);
                let id = mk_id(90 + r, 7);
                let names = all.clone();
                spawn_puppet(&net, addr, move |_raw, msg, from, _now| {
                    let Some(m) = msg else { return vec![] };
                    let KBody::Query(q) = &m.body else { return vec![] };
                    let r = match q {
                        KQuery::FindNode { .. } => {
                            let (nodes, nodes6) = node_lists(&names);
                            KResp { id: id.to_vec(), nodes, nodes6, ..Default::default() }
                        }
                        KQuery::GetPeers { .. } => KResp { id: id.to_vec(), token: Some(vec![0xAA; 8]), ..Default::default() },
                        _ => KResp { id: id.to_vec(), ..Default::default() },
                    };
                    vec![Out::now(from, &resp(&m.tid, r))]
                });
                routers.push(addr.to_string());
            }
            if c.routers > 0 {
                contacts.clear();
            }
            if let Some((period, _)) = c.busy {
                spawn_pinger(&net, pinger, n2_addr, 7, period as u64, 60);
            }
            let twin = start_node(&net, &NodeCfg { addr: n2_addr, id: mk_id(201, 201), read_only: false, nodes: contacts.clone(), routers: routers.clone(), announce_port: None });
            let start = net.now();
            let tw = twin.clone();
            let net3 = net.clone();
            let late = tokio::spawn(async move {
                let ok = tw.bootstrapped().await;
                let booted = net3.now();
                (ok, collect(&tw, false, Duration::from_secs(120)).await, booted)
            });
            let (ok, r_late, booted) = match within(Duration::from_secs(900), late).await {
                Some(Ok(x)) => x,
                _ => return Outcome::violation("setup-twin-hangs", "twin node did not bootstrap and search within 900 s"),
            };
            let boot_ms = (booted - start).as_millis() as u64;
            let Some(r_late) = r_late else { return Outcome::violation("late-search-hangs", "a search issued right after bootstrapped() does not end within 120 s") };
            if !ok {
                return Outcome::violation("setup-twin-not-bootstrapped", "twin bootstrapped() returned false");
            }
            if r_late != expected {
                // a holder's answer reached the (busy) twin only after the initial-round timeout:
                // the reference itself does not see every holder, so the world is not the one this
                // stage is about; nothing is asserted
                return Outcome::pass(false).label("reference-misses-holders");
            }
            if let Some((period, _)) = c.busy {
                spawn_pinger(&net, pinger, n_addr, net.now_ms() + 7, period as u64, 60);
            }
            let n = start_node(&net, &NodeCfg { addr: n_addr, id: mk_id(200, 200), read_only: false, nodes: contacts.clone(), routers: routers.clone(), announce_port: None });
            let n_start = net.now();
            let first_door = *doors.iter().min().unwrap() as u64;
            let mut handles = vec![];
            let mut in_window = false;
            for e in &c.early {
                let at_ms: u64 = match e.mode {
                    0 => 0,
                    1 => e.ms as u64,
                    2 => boot_ms.saturating_sub(1 + e.ms as u64 % 100),
                    3 => boot_ms,
                    6 => (boot_ms + e.ms as u64 / 8).saturating_sub(187),
                    _ => boot_ms + e.ms as u64,
                };
                if at_ms > first_door + 2 && at_ms + 5 < boot_ms {
                    in_window = true;
                }
                let dht = n.clone();
                let net2 = net.clone();
                let announce = e.announce;
                handles.push((at_ms, tokio::spawn(async move {
                    net2.sleep_until(n_start + Duration::from_millis(at_ms)).await;
                    collect(&dht, announce, Duration::from_secs(1200)).await
                })));
            }
            for (at_ms, h) in handles {
                let got = match within(Duration::from_secs(2400), h).await {
                    Some(Ok(Some(s))) => s,
                    _ => return Outcome::violation("early-search-hangs", format!("search issued {at_ms} ms after start (bootstrap takes ~{boot_ms} ms) does not end within 1200 s")),
                };
                if got != r_late {
                    let kind = if got.is_empty() { "early-search-empty" } else { "early-search-differs" };
                    return Outcome::violation(kind, format!("search issued {at_ms} ms after start (first contact answers after {first_door} ms, bootstrap completes after ~{boot_ms} ms) yielded {got:?}; the same search right after bootstrapped() yields {r_late:?}"));
                }
            }
            Outcome::pass(in_window).label(if in_window { "search-between-first-answer-and-completion" } else { "no-search-in-window" }).label(if c.doors_reveal { "doors-reveal" } else { "doors-mute" }).label(if c.routers > 0 { "router-only" } else { "starting-nodes" })
        })
    }
    fn rule(&self) -> String {
        "scripted world: 1..3 'door' contacts that answer find_node after 0..300 ms (naming everybody) but whose get_peers answers carry only a token (30 %: also the holders), and 1..2 'holder' contacts that hold the peers of H but answer find_node only after 0.2..1.9 s, so that the initial round stays open while the table already has good nodes; all are starting contacts of a fresh node N (40 %: N is configured with 1..2 routers only, which name 11..13 doors and the holders, all answering within 250 ms, doors revealing the holders — a router-only node needs 10 good nodes to complete); 1..5 searches for H at: start, a generated offset 0..3 s, just before / at / after / within 190 ms of the completion time learnt from an identically configured twin; optionally a busy event loop. Oracle (metamorphic): when the twin's search right after bootstrapped() yields exactly the holders' peers (otherwise nothing is asserted), so does every search on N. Non-trivial: a search issued after the first contact answered and > 5 ms before completion".into()
    }
}

pub fn spec() -> PropertySpec {
    PropertySpec {
        id: "C16",
        stages: vec![Box::new(EarlySearch), Box::new(ScriptedEarly)],
        assumptions: vec!["The reference result is obtained from a twin node with the same contacts on the same network (its own address and the twin's are removed from both result sets).".into()],
        explanation: "Oracle: metamorphic relation between a search issued before bootstrap completion and the same search issued right after it.".into(),
    }
}
