//! C10 — contacts are classified good / questionable / bad exactly per BEP5 timing.
//! Component tier: per-contact event histories on the real RoutingTable/Node against an
//! independent status model written from the property text.

use super::table_common::{dump, flip_bit, paused_rt, St};
use crate::bcodec::Id;
use crate::engine::*;
use btdht::verif::{Node, NodeHandle, RoutingTable};
use btdht::InfoHash;
use proptest::collection::vec;
use proptest::prelude::*;
use serde::{Deserialize, Serialize};
use std::net::SocketAddr;
use std::time::Duration;

const MIN15: u64 = 15 * 60 * 1000;

#[derive(Clone, Debug, Serialize, Deserialize)]
pub enum Ev {
    /// the contact answered one of our queries (handler: add_node(Node::as_good))
    Answer { c: u8 },
    /// another node named the contact (handler: add_node(Node::as_questionable))
    Mention { c: u8 },
    /// the contact sent us a query (handler: find_node_mut(..).remote_request())
    QueryFrom { c: u8 },
    /// we sent the contact a query (find_node_mut(..).local_request())
    QueryTo { c: u8 },
    Advance { ms: u64 },
}

#[derive(Clone, Debug, Serialize, Deserialize)]
pub struct Case {
    contacts: u8,
    events: Vec<Ev>,
    /// contacts 3..5 carry the node ids of contacts 0..2 (one id under two addresses)
    #[serde(default)]
    alias: bool,
}

#[derive(Clone, Debug, Default)]
struct M {
    /// in the table (ever answered or been mentioned, and not forgotten)
    known: bool,
    last_answer: Option<u64>,
    last_query_from: Option<u64>,
    unanswered: u32,
}

#[derive(Clone, Copy, Debug, PartialEq, Eq)]
enum Standing {
    Good,
    Questionable,
    Absent,
}

impl M {
    /// None if some relevant age is exactly 15 minutes (not asserted)
    fn standing(&self, now: u64) -> Option<Standing> {
        if !self.known {
            return Some(Standing::Absent);
        }
        let ages = [self.last_answer, self.last_query_from];
        if ages.iter().flatten().any(|t| now - t == MIN15) {
            return None;
        }
        let answered_recently = self.last_answer.map(|t| now - t < MIN15).unwrap_or(false);
        let queried_recently = self.last_query_from.map(|t| now - t < MIN15).unwrap_or(false);
        Some(if answered_recently {
            Standing::Good
        } else if self.unanswered >= 2 {
            Standing::Absent
        } else if queried_recently {
            Standing::Good
        } else {
            Standing::Questionable
        })
    }
}

pub struct Histories;

fn contact_handle(local: &Id, c: u8, alias: bool) -> (Id, SocketAddr) {
    // every contact in its own bucket region; never more than 6, so no bucket fills
    let mut id = flip_bit(*local, (c % 3) as usize);
    id[10] = if alias && c >= 3 { c - 3 } else { c };
    (id, SocketAddr::from(([10, 9, 0, c + 1], 4000 + c as u16)))
}

impl Stage for Histories {
    type Case = Case;
    fn name(&self) -> &'static str {
        "node-status"
    }
    fn cases(&self, tier: Tier) -> u32 {
        tier.pick(60_000, 600_000)
    }
    fn strategy(&self, _t: Tier) -> BoxedStrategy<Case> {
        let dt = prop_oneof![
            3 => Just(1_000u64),
            3 => Just(MIN15 - 1_000),
            2 => Just(MIN15 + 1_000),
            2 => MIN15 - 5_000..MIN15 + 5_000,
            2 => Just(16 * 60_000u64),
            1 => Just(3_600_000u64),
            2 => 1u64..120_000,
            1 => Just(MIN15 - 1),
            1 => Just(MIN15 + 1),
            // very long pauses: powers of two of the millisecond count (2^20 ms = 17 min .. 2^40 ms
            // = 35 years; 2^32 ms = 49.7 days) give or take 5 s, and the same minus 15 minutes
            2 => (20u32..=40, 0u64..10_000, any::<bool>()).prop_map(|(k, d, minus15)| ((1u64 << k) + d).saturating_sub(5_000).saturating_sub(if minus15 { MIN15 } else { 0 }).max(1)),
            1 => prop_oneof![Just(86_400_000u64), Just(30 * 86_400_000u64), Just((1u64 << 32) - 1_000), Just((1u64 << 32) + 1_000), Just((1u64 << 32) - MIN15 + 1_000)],
        ];
        (1u8..=6)
            .prop_flat_map(move |n| {
                let ev = prop_oneof![
                    3 => (0..n).prop_map(|c| Ev::Answer { c }),
                    2 => (0..n).prop_map(|c| Ev::Mention { c }),
                    3 => (0..n).prop_map(|c| Ev::QueryFrom { c }),
                    4 => (0..n).prop_map(|c| Ev::QueryTo { c }),
                    5 => dt.clone().prop_map(|ms| Ev::Advance { ms }),
                ];
                (Just(n), vec(ev, 1..60), prop::bool::weighted(0.3))
            })
            .prop_map(|(contacts, events, alias)| Case { contacts, events, alias })
            .boxed()
    }
    fn run(&self, c: &Case) -> Outcome {
        let rt = paused_rt(1);
        rt.block_on(async {
            let local: Id = [0x3c; 20];
            let mut table = RoutingTable::new(InfoHash::from(local));
            let mut model: Vec<M> = vec![M::default(); c.contacts as usize];
            let t0 = tokio::time::Instant::now();
            let mut crossed = false;
            let mut query_while_not_good = false;
            let mut boundary = false;
            for (n, ev) in c.events.iter().enumerate() {
                let now = (tokio::time::Instant::now() - t0).as_millis() as u64;
                match ev {
                    Ev::Advance { ms } => {
                        tokio::time::advance(Duration::from_millis(*ms)).await;
                        if *ms >= MIN15 {
                            crossed = true;
                        }
                    }
                    Ev::Answer { c: k } => {
                        let (id, a) = contact_handle(&local, *k, c.alias);
                        table.add_node(Node::as_good(InfoHash::from(id), a));
                        let m = &mut model[*k as usize];
                        m.known = true;
                        m.last_answer = Some(now);
                        m.unanswered = 0;
                    }
                    Ev::Mention { c: k } => {
                        let (id, a) = contact_handle(&local, *k, c.alias);
                        table.add_node(Node::as_questionable(InfoHash::from(id), a));
                        let m = &mut model[*k as usize];
                        match m.standing(now) {
                            None => boundary = true,
                            Some(Standing::Absent) => {
                                // unknown, or dropped and now learnt again: a fresh hearsay contact
                                *m = M { known: true, ..M::default() };
                            }
                            Some(_) => {}
                        }
                    }
                    Ev::QueryFrom { c: k } => {
                        let (id, a) = contact_handle(&local, *k, c.alias);
                        if let Some(node) = table.find_node_mut(&NodeHandle::new(InfoHash::from(id), a)) {
                            node.remote_request();
                        }
                        let m = &mut model[*k as usize];
                        match m.standing(now) {
                            None => boundary = true,
                            Some(Standing::Absent) => {} // queries never (re)admit a contact
                            Some(_) => m.last_query_from = Some(now),
                        }
                    }
                    Ev::QueryTo { c: k } => {
                        let (id, a) = contact_handle(&local, *k, c.alias);
                        if let Some(node) = table.find_node_mut(&NodeHandle::new(InfoHash::from(id), a)) {
                            node.local_request();
                        }
                        let m = &mut model[*k as usize];
                        match m.standing(now) {
                            None => boundary = true,
                            Some(Standing::Good) | Some(Standing::Absent) => {}
                            Some(Standing::Questionable) => {
                                m.unanswered += 1;
                                query_while_not_good = true;
                            }
                        }
                    }
                }
                if boundary {
                    return Outcome::pass(false).label("boundary-coincidence");
                }
                // compare every contact
                let now = (tokio::time::Instant::now() - t0).as_millis() as u64;
                let d = dump(&table);
                let (good, quest) = table.load_contacts();
                for k in 0..c.contacts {
                    let (id, a) = contact_handle(&local, k, c.alias);
                    let actual = match d.iter().flatten().find(|s| s.id == id && s.addr == a).map(|s| s.st) {
                        Some(St::Good) => Standing::Good,
                        Some(St::Questionable) => Standing::Questionable,
                        Some(St::Bad) | None => Standing::Absent,
                    };
                    let reported = if good.contains(&a) {
                        Standing::Good
                    } else if quest.contains(&a) {
                        Standing::Questionable
                    } else {
                        Standing::Absent
                    };
                    let Some(expect) = model[k as usize].standing(now) else {
                        return Outcome::pass(false).label("boundary-coincidence");
                    };
                    if actual != expect || reported != expect {
                        let kind = match (expect, actual) {
                            (Standing::Good, _) => "good-contact-not-reported-good",
                            (_, Standing::Good) => "reported-good-without-recent-answer-or-query",
                            (Standing::Absent, _) => "dropped-or-unknown-contact-reported",
                            (Standing::Questionable, _) => "questionable-contact-not-reported",
                        };
                        return Outcome::violation(
                            kind,
                            format!(
                                "after event #{n} {ev:?} at t={now} ms: contact {k} is {actual:?} in the table and reported {reported:?}, the model says {expect:?} (last answer {:?}, last query from it {:?}, unanswered {})",
                                model[k as usize].last_answer, model[k as usize].last_query_from, model[k as usize].unanswered
                            ),
                        );
                    }
                }
            }
            Outcome::pass(crossed && query_while_not_good)
        })
    }
    fn rule(&self) -> String {
        "histories of 1..60 events for 1..6 interleaved contacts (30 %: contacts 3..5 carry the node ids of contacts 0..2 under other addresses) on the real RoutingTable under a paused clock: answer, hearsay mention, query received, query sent, time steps (1 s, 14 m 59 s, 15 m 1 s, 15 m +/- 5 s, 15 m +/- 1 ms, 16 m, 1 h, random < 2 min; very long pauses: 1 day, 30 days, 2^k ms +/- 5 s for k = 20..40 (2^32 ms = 49.7 days), also minus 15 min), applied through the API the handler uses. Oracle: independent per-contact status model (good iff answered within 15 min, or known with < 2 unanswered queries and queried us within 15 min; absent iff not good with >= 2 consecutive unanswered queries; else questionable; a mention re-admits a dropped contact as fresh hearsay; its own queries never do), compared with Node::status() and load_contacts() after every event. Ages of exactly 15 min end the case. Non-trivial: a step >= 15 min and a query sent while not good".into()
    }
}

pub fn spec() -> PropertySpec {
    PropertySpec {
        id: "C10",
        stages: vec![Box::new(Histories), Box::new(super::maint::C10Wire)],
        assumptions: vec![
            "Component tier drives RoutingTable/Node through hook H2 exactly as handler.rs does (add_node(as_good) for an accepted answer, add_node(as_questionable) for a named node, find_node_mut().remote_request()/local_request()).".into(),
            "A dropped contact that another node names again is a fresh hearsay contact (C11's wording confirms this reading).".into(),
            "Exact 15-minute coincidences are not asserted.".into(),
        ],
        explanation: "Oracle: independent status model derived from the property statement, compared after every event.".into(),
    }
}
