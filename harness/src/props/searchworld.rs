//! Shared pieces for the search properties (C02, C03): a world of omniscient scripted DHT nodes
//! and the extraction of per-search observations from the wire log.

use crate::bcodec::*;
use crate::engine::splitmix;
use crate::sim::*;
use crate::world::*;
use std::collections::HashMap;
use std::net::SocketAddr;
use std::sync::{Arc, Mutex};

pub fn rand_id(seed: u64) -> Id {
    let mut id = [0u8; 20];
    let mut x = seed;
    for b in id.iter_mut() {
        x = splitmix(x);
        *b = x as u8;
    }
    id
}

/// id sharing `prefix_bits` leading bits with `base`, the rest pseudo-random from `seed`
pub fn clustered_id(base: &Id, prefix_bits: usize, seed: u64) -> Id {
    let r = rand_id(seed);
    let mut id = [0u8; 20];
    for bit in 0..160 {
        let src = if bit < prefix_bits { base } else { &r };
        if src[bit / 8] & (0x80 >> (bit % 8)) != 0 {
            id[bit / 8] |= 0x80 >> (bit % 8);
        }
    }
    // make sure it differs from base right after the prefix (so the prefix is exact)
    if prefix_bits < 160 {
        let bit = prefix_bits;
        let want = base[bit / 8] & (0x80 >> (bit % 8)) == 0;
        if want {
            id[bit / 8] |= 0x80 >> (bit % 8);
        } else {
            id[bit / 8] &= !(0x80 >> (bit % 8));
        }
    }
    id
}

pub fn closest(world: &[(Id, SocketAddr)], target: &[u8], n: usize, exclude: Option<usize>) -> Vec<usize> {
    let mut idx: Vec<usize> = (0..world.len()).filter(|i| Some(*i) != exclude).collect();
    idx.sort_by_key(|i| xor_dist(&world[*i].0, target));
    idx.truncate(n);
    idx
}

#[derive(Default)]
pub struct WorldRecord {
    /// tokens issued: puppet index -> list of (token, to, time ms)
    pub tokens: HashMap<usize, Vec<(Vec<u8>, SocketAddr, u64)>>,
    pub counter: u32,
}

/// Spawn `world.len()` omniscient nodes. Each answers find_node/get_peers with the true
/// XOR-closest <= 8 other nodes plus `extra_names` (hostile additions), get_peers additionally
/// with a fresh globally unique token and its peer set, ping/announce_peer with a plain ack.
/// `rtt` gives the answer delay in ms for puppet i and the n-th query it receives.
pub fn spawn_omniscient(
    net: &SimNet,
    world: Arc<Vec<(Id, SocketAddr)>>,
    peers: Arc<Vec<Vec<SocketAddr>>>,
    extra_names: Arc<Vec<(Id, SocketAddr)>>,
    answer_delay_ms: Arc<dyn Fn(usize, u32) -> u64 + Send + Sync>,
    rec: Arc<Mutex<WorldRecord>>,
) {
    for i in 0..world.len() {
        let world = world.clone();
        let peers = peers.clone();
        let extra = extra_names.clone();
        let rec = rec.clone();
        let delay = answer_delay_ms.clone();
        let mut nth = 0u32;
        let (id, addr) = world[i];
        spawn_puppet(net, addr, move |_raw, msg, from, now| {
            let Some(m) = msg else { return vec![] };
            let KBody::Query(q) = &m.body else { return vec![] };
            nth += 1;
            let names = |target: &[u8]| -> Vec<(Id, SocketAddr)> {
                let mut v: Vec<(Id, SocketAddr)> = closest(&world, target, 8, Some(i)).into_iter().map(|j| world[j]).collect();
                v.extend(extra.iter().copied());
                // keep the reply within a 1500-byte datagram (26 / 38 bytes per node)
                let cap = if addr.is_ipv6() { 34 } else { 50 };
                v.truncate(cap);
                v
            };
            let r = match q {
                KQuery::Ping { .. } | KQuery::Announce { .. } => KResp { id: id.to_vec(), ..Default::default() },
                KQuery::FindNode { target, .. } => {
                    let (nodes, nodes6) = node_lists(&names(target));
                    KResp { id: id.to_vec(), nodes, nodes6, ..Default::default() }
                }
                KQuery::GetPeers { info_hash, .. } => {
                    let (nodes, nodes6) = node_lists(&names(info_hash));
                    let mut r = rec.lock().unwrap();
                    r.counter += 1;
                    let mut token = b"tk".to_vec();
                    token.extend_from_slice(&(i as u16).to_be_bytes());
                    token.extend_from_slice(&r.counter.to_be_bytes());
                    r.tokens.entry(i).or_default().push((token.clone(), from, now.as_millis() as u64));
                    KResp { id: id.to_vec(), nodes, nodes6, token: Some(token), values: peers[i].clone() }
                }
            };
            vec![Out::after(delay(i, nth), from, &resp(&m.tid, r))]
        });
    }
}


/// Leading bits two ids share.
pub fn lcp_bits(a: &Id, b: &Id) -> usize {
    for i in 0..20 {
        let x = a[i] ^ b[i];
        if x != 0 {
            return i * 8 + x.leading_zeros() as usize;
        }
    }
    160
}

/// Kademlia-like knowledge: node i knows, for every prefix length p, the (at most) 8 nodes that
/// share exactly p leading bits with it and are XOR-nearest to it.
pub fn kademlia_knowledge(world: &[(Id, SocketAddr)]) -> Vec<Vec<usize>> {
    let n = world.len();
    let mut out = Vec::with_capacity(n);
    for i in 0..n {
        let mut by_p: HashMap<usize, Vec<usize>> = HashMap::new();
        for j in 0..n {
            if j != i {
                by_p.entry(lcp_bits(&world[i].0, &world[j].0)).or_default().push(j);
            }
        }
        let mut known = vec![];
        let mut ps: Vec<usize> = by_p.keys().copied().collect();
        ps.sort();
        for p in ps {
            let mut v = by_p.remove(&p).unwrap();
            v.sort_by_key(|j| xor_dist(&world[i].0, &world[*j].0));
            v.truncate(8);
            known.extend(v);
        }
        out.push(known);
    }
    out
}

/// Like `spawn_omniscient`, but every node answers with the <= 8 nodes closest to the target
/// among those it *knows* (`knowledge[i]`), so that a search needs several hops.
pub fn spawn_limited(
    net: &SimNet,
    world: Arc<Vec<(Id, SocketAddr)>>,
    knowledge: Arc<Vec<Vec<usize>>>,
    peers: Arc<Vec<Vec<SocketAddr>>>,
    rec: Arc<Mutex<WorldRecord>>,
) {
    for i in 0..world.len() {
        let world = world.clone();
        let knowledge = knowledge.clone();
        let peers = peers.clone();
        let rec = rec.clone();
        let (id, addr) = world[i];
        spawn_puppet(net, addr, move |_raw, msg, from, now| {
            let Some(m) = msg else { return vec![] };
            let KBody::Query(q) = &m.body else { return vec![] };
            let names = |target: &[u8]| -> Vec<(Id, SocketAddr)> {
                let mut idx: Vec<usize> = knowledge[i].clone();
                idx.sort_by_key(|j| xor_dist(&world[*j].0, target));
                idx.truncate(8);
                idx.into_iter().map(|j| world[j]).collect()
            };
            let r = match q {
                KQuery::Ping { .. } | KQuery::Announce { .. } => KResp { id: id.to_vec(), ..Default::default() },
                KQuery::FindNode { target, .. } => {
                    let (nodes, nodes6) = node_lists(&names(target));
                    KResp { id: id.to_vec(), nodes, nodes6, ..Default::default() }
                }
                KQuery::GetPeers { info_hash, .. } => {
                    let (nodes, nodes6) = node_lists(&names(info_hash));
                    let mut r = rec.lock().unwrap();
                    r.counter += 1;
                    let mut token = b"tk".to_vec();
                    token.extend_from_slice(&(i as u16).to_be_bytes());
                    token.extend_from_slice(&r.counter.to_be_bytes());
                    r.tokens.entry(i).or_default().push((token.clone(), from, now.as_millis() as u64));
                    KResp { id: id.to_vec(), nodes, nodes6, token: Some(token), values: peers[i].clone() }
                }
            };
            vec![Out::now(from, &resp(&m.tid, r))]
        });
    }
}

/// What one search looked like on the wire (all datagrams of one 5-byte activity prefix).
#[derive(Default, Debug, Clone)]
pub struct SearchObs {
    pub prefix: Vec<u8>,
    /// (time ms, to, tid)
    pub get_peers: Vec<(u64, SocketAddr, Vec<u8>)>,
    /// (time ms, to, token, info_hash, port (None = implied), id)
    pub announces: Vec<(u64, SocketAddr, Vec<u8>, Vec<u8>, Option<u16>, Vec<u8>)>,
    /// responses delivered to the node carrying this prefix: (time ms, from, tid, resp)
    pub responses: Vec<(u64, SocketAddr, Vec<u8>, KResp)>,
}

/// Group the node's get_peers/announce_peer traffic for `info_hash` by activity prefix, in order
/// of first use (one entry per search issued for that hash).
pub fn observe_searches(log: &[Ev], node: SocketAddr, info_hash: &[u8]) -> Vec<SearchObs> {
    let mut out: Vec<SearchObs> = vec![];
    let mut by_prefix: HashMap<Vec<u8>, usize> = HashMap::new();
    for e in log {
        let Ok(m) = KMsg::decode(&e.bytes) else { continue };
        if m.tid.len() != 8 {
            continue;
        }
        let prefix = m.tid[..5].to_vec();
        match (&e.kind, &m.body) {
            (EvKind::Send { .. } | EvKind::SendFailed, KBody::Query(q)) if e.from == node => match q {
                KQuery::GetPeers { info_hash: h, .. } if h[..] == info_hash[..] => {
                    let i = *by_prefix.entry(prefix.clone()).or_insert_with(|| {
                        out.push(SearchObs { prefix: prefix.clone(), ..Default::default() });
                        out.len() - 1
                    });
                    out[i].get_peers.push((e.ms(), e.to, m.tid.clone()));
                }
                KQuery::Announce { info_hash: h, token, port, id } if h[..] == info_hash[..] => {
                    let i = *by_prefix.entry(prefix.clone()).or_insert_with(|| {
                        out.push(SearchObs { prefix: prefix.clone(), ..Default::default() });
                        out.len() - 1
                    });
                    out[i].announces.push((e.ms(), e.to, token.clone(), h.clone(), *port, id.clone()));
                }
                _ => {}
            },
            (EvKind::Deliver, KBody::Resp(r)) if e.to == node => {
                if let Some(i) = by_prefix.get(&prefix) {
                    out[*i].responses.push((e.ms(), e.from, m.tid.clone(), r.clone()));
                }
            }
            _ => {}
        }
    }
    out
}
