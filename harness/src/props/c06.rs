//! C06 — announce tokens: bound to the requester IP, valid >= 10 min, dead by 30 min.

use super::single::*;
use crate::bcodec::*;
use crate::engine::*;
use crate::sim::paused_rt;
use btdht::verif::{Token, TokenStore};
use proptest::collection::vec;
use proptest::prelude::*;
use serde::{Deserialize, Serialize};
use std::collections::HashMap;
use std::net::{IpAddr, SocketAddr};
use std::time::Duration;

#[derive(Clone, Debug, Serialize, Deserialize)]
pub enum TokRef {
    /// k-th most recent token this IP obtained from the current instance
    Mine(u8),
    /// k-th most recent token another IP obtained
    Other(u8),
    /// k-th most recent token handed out by a previous instance (to this IP if any)
    Previous(u8),
    Random(u64),
    /// arbitrary bytes of this length (20 gives a never-issued token)
    Len(u8),
    /// this IP's most recent token with `n` extra bytes appended / cut to its first `n` bytes
    MinePlus(u8),
    MinePrefix(u8),
}

#[derive(Clone, Debug, Serialize, Deserialize)]
pub enum Ev {
    Gap { ms: u64 },
    GetPeers { ip: u8, port: u16 },
    Announce { ip: u8, port: u16, token: TokRef, hash: u8, explicit: Option<u16> },
    Restart,
}

#[derive(Clone, Debug, Serialize, Deserialize)]
pub struct Case {
    v6: bool,
    events: Vec<Ev>,
}

const IPS: u16 = 6;

fn ip_addr(v6: bool, ip: u8, port: u16) -> SocketAddr {
    fam_addr(v6, 500 + (ip as u16 % IPS), port.max(1))
}

fn gap(long: bool) -> impl Strategy<Value = u64> {
    prop_oneof![
        // very long idle periods (component tier only): 2^k ms +/- 5 s, k = 21..40 (2^32 ms = 49.7 days)
        if long { 1 } else { 0 } => (21u32..=40, 0u64..10_000).prop_map(|(k, d)| (1u64 << k) + d - 5_000),
        4 => 0u64..2_000,
        3 => 599_000u64..=601_000,
        2 => 1_199_000u64..=1_201_000,
        2 => 1_799_000u64..=1_801_000,
        2 => 0u64..7_200_000,
        1 => 590_000u64..610_000,
        1 => Just(600_000u64),
        1 => Just(1_200_000u64),
    ]
}

fn event(with_restart: bool, long: bool) -> impl Strategy<Value = Ev> {
    let tok = prop_oneof![
        8 => (0u8..3).prop_map(TokRef::Mine),
        2 => (0u8..3).prop_map(TokRef::Other),
        1 => (0u8..3).prop_map(TokRef::Previous),
        1 => any::<u64>().prop_map(TokRef::Random),
        1 => (0u8..=40).prop_map(TokRef::Len),
        1 => (1u8..24).prop_map(TokRef::MinePlus),
        1 => (0u8..20).prop_map(TokRef::MinePrefix),
    ];
    prop_oneof![
        5 => gap(long).prop_map(|ms| Ev::Gap { ms }),
        4 => (0u8..IPS as u8, 1u16..5).prop_map(|(ip, port)| Ev::GetPeers { ip, port }),
        6 => (0u8..IPS as u8, 1u16..5, tok, 0u8..3, proptest::option::of(1u16..)).prop_map(|(ip, port, token, hash, explicit)| Ev::Announce { ip, port, token, hash, explicit }),
        if with_restart { 1 } else { 0 } => Just(Ev::Restart),
    ]
}

// ---------------------------------------------------------------------------------------------
// Model

#[derive(Default)]
struct Model {
    /// (ip, token) -> issue times (ms) by the current instance
    issued: HashMap<(IpAddr, Vec<u8>), Vec<u64>>,
    /// per ip: tokens in order of issue (current instance)
    by_ip: HashMap<IpAddr, Vec<Vec<u8>>>,
    previous: Vec<(IpAddr, Vec<u8>)>,
    /// (hash, contact address) acknowledged so far (histories are shorter than the 24 h expiry)
    stored: std::collections::HashSet<(u8, SocketAddr)>,
}

#[derive(PartialEq, Debug)]
enum Must {
    Accept,
    Reject,
    Either,
}

impl Model {
    fn issue(&mut self, ip: IpAddr, tok: Vec<u8>, now: u64) {
        self.issued.entry((ip, tok.clone())).or_default().push(now);
        self.by_ip.entry(ip).or_default().push(tok);
    }
    fn decide(&self, ip: IpAddr, tok: &[u8], now: u64) -> Must {
        if tok.len() != 20 {
            return Must::Reject;
        }
        match self.issued.get(&(ip, tok.to_vec())) {
            None => Must::Reject,
            Some(times) => {
                let youngest = now - times.iter().max().unwrap();
                if youngest <= 600_000 {
                    Must::Accept
                } else if youngest >= 1_800_000 {
                    Must::Reject
                } else {
                    Must::Either
                }
            }
        }
    }
    fn restart(&mut self) {
        for ((ip, t), _) in self.issued.drain() {
            self.previous.push((ip, t));
        }
        self.previous.sort();
        self.by_ip.clear();
        self.stored.clear();
    }
    fn resolve(&self, r: &TokRef, ip: IpAddr) -> (Vec<u8>, &'static str) {
        let nth = |v: &Vec<Vec<u8>>, k: u8| -> Option<Vec<u8>> { v.iter().rev().nth(k as usize).cloned().or_else(|| v.first().cloned()) };
        match r {
            TokRef::Mine(k) => match self.by_ip.get(&ip).and_then(|v| nth(v, *k)) {
                Some(t) => (t, "mine"),
                None => (vec![0x5a; 20], "never-issued"),
            },
            TokRef::Other(k) => {
                let mut others: Vec<(&IpAddr, &Vec<Vec<u8>>)> = self.by_ip.iter().filter(|(i, v)| **i != ip && !v.is_empty()).collect();
                others.sort();
                match others.get(*k as usize % others.len().max(1)).and_then(|(_, v)| nth(v, 0)) {
                    Some(t) => (t, "other-ip"),
                    None => (vec![0x5b; 20], "never-issued"),
                }
            }
            TokRef::Previous(k) => {
                let mine: Vec<&(IpAddr, Vec<u8>)> = self.previous.iter().filter(|(i, _)| *i == ip).collect();
                let pool: Vec<&(IpAddr, Vec<u8>)> = if mine.is_empty() { self.previous.iter().collect() } else { mine };
                match pool.get(*k as usize % pool.len().max(1)) {
                    Some((_, t)) => (t.clone(), "previous-instance"),
                    None => (vec![0x5c; 20], "never-issued"),
                }
            }
            TokRef::Random(s) => {
                let mut t = vec![];
                let mut x = *s;
                for _ in 0..20 {
                    x = splitmix(x);
                    t.push(x as u8);
                }
                (t, "never-issued")
            }
            TokRef::Len(l) => (vec![0x5d; *l as usize], if *l == 20 { "never-issued" } else { "wrong-length" }),
            TokRef::MinePlus(n) | TokRef::MinePrefix(n) => {
                let mut t = self.by_ip.get(&ip).and_then(|v| nth(v, 0)).unwrap_or_else(|| vec![0x5e; 20]);
                if matches!(r, TokRef::MinePlus(_)) {
                    t.extend(std::iter::repeat(0x2a).take(*n as usize));
                } else {
                    t.truncate(*n as usize);
                }
                (t, "wrong-length")
            }
        }
    }
}

// ---------------------------------------------------------------------------------------------
// Systems under test

enum Sut {
    Component { store: TokenStore },
    System { solo: Solo },
}

fn hash_n(h: u8) -> Id {
    super::c05::hash_n(h)
}

impl Sut {
    async fn get_token(&mut self, src: SocketAddr) -> Result<Vec<u8>, String> {
        match self {
            Sut::Component { store } => Ok(store.checkout(src.ip()).as_ref().to_vec()),
            Sut::System { solo } => {
                let r = solo.get_peers(src, &hash_n(0), KWant::Absent, b"gp").await?;
                r.token.ok_or_else(|| "get_peers reply without token".to_string())
            }
        }
    }
    /// Ok(true) accepted / Ok(false) refused with 203
    async fn announce(&mut self, src: SocketAddr, hash: u8, explicit: Option<u16>, tok: &[u8]) -> Result<bool, String> {
        match self {
            Sut::Component { store } => Ok(match Token::new(tok) {
                Ok(t) => store.checkin(src.ip(), t),
                Err(_) => false,
            }),
            Sut::System { solo } => match solo.announce(src, &hash_n(hash), explicit, tok, b"an").await? {
                Ok(()) => Ok(true),
                Err(203) => Ok(false),
                Err(code) => Err(format!("announce refused with error code {code} (expected ack or 203)")),
            },
        }
    }
    async fn listed(&mut self, v6: bool, hash: u8) -> Result<Option<Vec<SocketAddr>>, String> {
        match self {
            Sut::Component { .. } => Ok(None),
            Sut::System { solo } => {
                let r = solo.get_peers(fam_addr(v6, 900, 4444), &hash_n(hash), KWant::Absent, b"ck").await?;
                Ok(Some(r.values))
            }
        }
    }
    async fn restart(&mut self) {
        match self {
            Sut::Component { store } => *store = TokenStore::new(),
            Sut::System { solo } => solo.restart().await,
        }
    }
}

async fn run_history(c: &Case, mut sut: Sut) -> Outcome {
    let mut model = Model::default();
    let t0 = tokio::time::Instant::now();
    let mut decided: HashMap<Vec<u8>, (bool, bool)> = HashMap::new(); // token -> (must-accept seen, must-reject seen)
    let mut cross_ip = false;
    for (n, ev) in c.events.iter().enumerate() {
        let now = (tokio::time::Instant::now() - t0).as_millis() as u64;
        match ev {
            Ev::Gap { ms } => tokio::time::sleep(Duration::from_millis(*ms)).await,
            Ev::Restart => {
                sut.restart().await;
                model.restart();
            }
            Ev::GetPeers { ip, port } => {
                let src = ip_addr(c.v6, *ip, *port);
                match sut.get_token(src).await {
                    Ok(t) => {
                        if t.len() != 20 {
                            return Outcome::violation("token-length", format!("event #{n}: token of {} bytes", t.len()));
                        }
                        model.issue(src.ip(), t, now);
                    }
                    Err(e) => return Outcome::violation("get-peers-failed", format!("event #{n}: {e}")),
                }
            }
            Ev::Announce { ip, port, token, hash, explicit } => {
                let src = ip_addr(c.v6, *ip, *port);
                let (tok, class) = model.resolve(token, src.ip());
                let must = model.decide(src.ip(), &tok, now);
                if class == "other-ip" {
                    cross_ip = true;
                }
                let accepted = match sut.announce(src, *hash, *explicit, &tok).await {
                    Ok(a) => a,
                    Err(e) => return Outcome::violation("announce-bad-reply", format!("event #{n}: {e}")),
                };
                let e = decided.entry(tok.clone()).or_insert((false, false));
                match must {
                    Must::Accept => e.0 = true,
                    Must::Reject => e.1 = true,
                    Must::Either => {}
                }
                let age = model.issued.get(&(src.ip(), tok.clone())).map(|t| now - t.iter().max().unwrap());
                let ctx = format!("event #{n} at t={now} ms: announce from {src} with {class} token {} (youngest issue {:?} ms ago)", hex(&tok), age);
                if must == Must::Accept && !accepted {
                    return Outcome::violation("valid-token-refused", format!("{ctx} was refused although issued to this IP within 10 minutes"));
                }
                if must == Must::Reject && accepted {
                    let kind = match class {
                        "other-ip" => "token-of-other-ip-accepted",
                        "previous-instance" => "token-of-previous-instance-accepted",
                        "wrong-length" => "wrong-length-token-accepted",
                        "never-issued" => "never-issued-token-accepted",
                        _ => "expired-token-accepted",
                    };
                    return Outcome::violation(kind, format!("{ctx} was accepted"));
                }
                let contact = match explicit {
                    Some(p) => SocketAddr::new(src.ip(), *p),
                    None => src,
                };
                if accepted {
                    model.stored.insert((*hash, contact));
                }
                match sut.listed(c.v6, *hash).await {
                    Err(e) => return Outcome::violation("get-peers-failed", format!("{ctx}: follow-up get_peers: {e}")),
                    Ok(None) => {}
                    Ok(Some(values)) => {
                        let has = values.contains(&contact);
                        let should = model.stored.contains(&(*hash, contact));
                        if accepted && !has {
                            return Outcome::violation("acked-but-not-stored", format!("{ctx} was acknowledged but {contact} is not listed afterwards: {values:?}"));
                        }
                        if !accepted && has && !should {
                            return Outcome::violation("refused-but-stored", format!("{ctx} was refused but {contact} is listed afterwards"));
                        }
                        if let Some(v) = values.iter().find(|v| !model.stored.contains(&(*hash, **v))) {
                            return Outcome::violation("unannounced-peer-listed", format!("{ctx}: {v} listed but never acknowledged"));
                        }
                    }
                }
            }
        }
    }
    let nt = cross_ip || decided.values().any(|(a, r)| *a && *r);
    Outcome::pass(nt).label(if cross_ip { "cross-ip" } else { "no-cross-ip" }).label(if decided.values().any(|(a, r)| *a && *r) { "accept-and-reject-same-token" } else { "single-decision" })
}

fn strategy(with_restart: bool, max: usize, long: bool) -> BoxedStrategy<Case> {
    let free = (any::<bool>(), vec(event(with_restart, long), 5..max)).prop_map(|(v6, events)| Case { v6, events });
    // structured prefix around one lazy rotation: a token issued `a` ms before the 10-minute mark
    // of the current secret, another event `b` ms after the mark (which rotates the secrets), and
    // the announce when the token is 10 min - c old; repeated with fresh parameters
    let round = (1u64..3000, 1u64..3000, 0u64..600, 0u8..3, 1u8..4).prop_map(|(a, e, c, ip, other)| {
        vec![
            Ev::Gap { ms: 600_000 - a },
            Ev::GetPeers { ip, port: 1 },
            Ev::Gap { ms: e },
            Ev::GetPeers { ip: ip + other, port: 2 },
            Ev::Gap { ms: 600_000 - e - c },
            Ev::Announce { ip, port: 3, token: TokRef::Mine(0), hash: 1, explicit: None },
        ]
    });
    let structured = (any::<bool>(), vec(round, 1..4), vec(event(with_restart, long), 0..20)).prop_map(|(v6, rounds, tail)| {
        let mut events: Vec<Ev> = rounds.into_iter().flatten().collect();
        events.extend(tail);
        Case { v6, events }
    });
    prop_oneof![4 => free, 1 => structured].boxed()
}

const RULE: &str = "histories of 5..80 events over up to hours: get_peers(ip, port) collecting tokens, announce(ip, port', token reference, hash, port mode) with token = k-th most recent of this IP / of another IP / of a previous instance / random 20 B / length 0..40 / this IP's token with extra bytes or cut to a prefix, idle gaps from a mixture hugging the rotation arithmetic (0..2 s, 599..601 s, 1199..1201 s, 1799..1801 s, exact 600/1200 s, uniform to 2 h; 1 ms resolution), 6 IPs of one family per case, restarts of the node; 20 % of the histories start with 1..3 structured rounds (token issued up to 3 s before the 10-minute mark of the current secret, another request up to 3 s later, announce when the token is 10 min - 0..0.6 s old). Oracle: interval model (must accept <=10 min after issue to that IP; must refuse 203 if never issued to that IP by this instance, wrong length, or all issues >=30 min old; otherwise either) plus store checks by a follow-up get_peers. Non-trivial: a must-accept and a must-reject decision on the same token value, or a cross-IP attempt";

pub struct Component;

impl Stage for Component {
    type Case = Case;
    fn name(&self) -> &'static str {
        "token-store"
    }
    fn cases(&self, tier: Tier) -> u32 {
        tier.pick(20_000, 400_000)
    }
    fn strategy(&self, _t: Tier) -> BoxedStrategy<Case> {
        strategy(true, 80, true)
    }
    fn run(&self, c: &Case) -> Outcome {
        let rt = paused_rt(1);
        rt.block_on(async { run_history(c, Sut::Component { store: TokenStore::new() }).await })
    }
    fn rule(&self) -> String {
        format!("[re-exported TokenStore, no network; additionally idle periods of 2^k ms +/- 5 s, k = 21..40] {RULE}")
    }
    fn sample(&self, c: &Case) -> serde_json::Value {
        serde_json::json!({"v6": c.v6, "n_events": c.events.len(), "first": c.events.iter().take(6).map(|e| format!("{e:?}")).collect::<Vec<_>>()})
    }
}

pub struct System;

impl Stage for System {
    type Case = Case;
    fn name(&self) -> &'static str {
        "node"
    }
    fn cases(&self, tier: Tier) -> u32 {
        tier.pick(1000, 20_000)
    }
    fn strategy(&self, _t: Tier) -> BoxedStrategy<Case> {
        strategy(true, 80, false)
    }
    fn run(&self, c: &Case) -> Outcome {
        let rt = paused_rt(1);
        rt.block_on(async {
            let solo = Solo::start(c.v6, [0x42; 20]);
            solo.net.settle().await;
            run_history(c, Sut::System { solo }).await
        })
    }
    fn rule(&self) -> String {
        format!("[real serving node on the simulated network, KRPC on the wire] {RULE}")
    }
    fn sample(&self, c: &Case) -> serde_json::Value {
        Component.sample(c)
    }
}

pub fn spec() -> PropertySpec {
    PropertySpec {
        id: "C06",
        stages: vec![Box::new(Component), Box::new(System)],
        assumptions: vec![
            "Secrets are 32-bit random: a never-issued token is accepted with probability 2^-31; a violation is reported only if it reproduces on three further executions.".into(),
            "Virtual clock (hook H1): token rotation reads tokio's paused clock.".into(),
            "Between 10 and 30 minutes after issue either answer is accepted (the property leaves it open).".into(),
        ],
        explanation: "Oracle: independent interval model of token validity + store contents observed through get_peers.".into(),
    }
}
