//! C09 — closest-node lists (component tier on the real RoutingTable; wire tier in c09w).

use super::table_common::*;
use crate::engine::*;
use btdht::InfoHash;
use proptest::collection::vec;
use proptest::prelude::*;
use serde::{Deserialize, Serialize};
use std::collections::HashMap;
use std::net::SocketAddr;

#[derive(Clone, Debug, Serialize, Deserialize)]
pub enum Target {
    Local,
    /// local id with bit b flipped and a pseudo-random tail
    Flip { bit: u8, tail: u8 },
    /// shares `extra` more bits than necessary with the k-th live table node
    NearNode { k: u16, tail: u8 },
    Random(#[serde(with = "crate::bcodec::hexser")] Vec<u8>),
}

#[derive(Clone, Debug, Serialize, Deserialize)]
pub struct Case {
    table: TableCase,
    /// probe after every `every`-th operation
    every: u8,
    targets: Vec<Target>,
}

pub struct Closest;

fn target() -> impl Strategy<Value = Target> {
    prop_oneof![
        1 => Just(Target::Local),
        4 => (0u8..160, 0u8..4).prop_map(|(bit, tail)| Target::Flip { bit, tail }),
        3 => (any::<u16>(), 0u8..4).prop_map(|(k, tail)| Target::NearNode { k, tail }),
        2 => vec(any::<u8>(), 20).prop_map(Target::Random),
    ]
}

pub fn check_closest(it: &Interp, d: &Dump, t: &Id) -> Result<bool, (String, String)> {
    let live: Vec<(usize, Slot)> = live_of(d);
    let listed: Vec<(Id, SocketAddr)> =
        it.table.closest_nodes(InfoHash::from(*t)).map(|n| (n.id().into(), n.addr())).collect();
    // multiset equality with the live set
    let mut count: HashMap<(Id, SocketAddr), i32> = HashMap::new();
    for (_, s) in &live {
        *count.entry(s.handle()).or_insert(0) += 1;
    }
    for h in &listed {
        *count.entry(*h).or_insert(0) -= 1;
    }
    if let Some((h, c)) = count.iter().find(|(_, c)| **c != 0) {
        let what = if *c > 0 { "enumeration-misses-node" } else { "enumeration-duplicates-or-invents-node" };
        return Err((
            what.into(),
            format!(
                "target {}: node ({}, {}) balance {c} (live {} listed {})",
                crate::bcodec::hex(t),
                crate::bcodec::hex(&h.0),
                h.1,
                live.len(),
                listed.len()
            ),
        ));
    }
    // per family: the first 8 of the filtered enumeration contain every node sharing a longer
    // prefix with the target than the local id does
    let start = lcp(&it.local, t);
    let mut nontrivial = false;
    for v6 in [false, true] {
        let fam: Vec<&(Id, SocketAddr)> = listed.iter().filter(|h| h.1.is_ipv6() == v6).collect();
        let first8: Vec<&(Id, SocketAddr)> = fam.iter().take(8).copied().collect();
        let lf = live.iter().filter(|(_, s)| s.addr.is_ipv6() == v6).count();
        if first8.len() != lf.min(8) {
            return Err(("list-length".into(), format!("family v6={v6}: {} listed, {} live", first8.len(), lf)));
        }
        let must: Vec<&(usize, Slot)> =
            live.iter().filter(|(_, s)| s.addr.is_ipv6() == v6 && lcp(&s.id, t) > start).collect();
        for (_, m) in &must {
            if !first8.iter().any(|h| **h == m.handle()) {
                return Err((
                    "closer-node-omitted".into(),
                    format!(
                        "target {} (shares {start} bits with local): node {} shares {} bits with the target but is not among the first 8 of family v6={v6}",
                        crate::bcodec::hex(t),
                        crate::bcodec::hex(&m.id),
                        lcp(&m.id, t)
                    ),
                ));
            }
        }
        if !must.is_empty() && lf >= 9 {
            nontrivial = true;
        }
    }
    Ok(nontrivial && d.len() >= 3)
}

impl Stage for Closest {
    type Case = Case;
    fn name(&self) -> &'static str {
        "iterator"
    }
    fn cases(&self, tier: Tier) -> u32 {
        tier.pick(3000, 60_000)
    }
    fn strategy(&self, tier: Tier) -> BoxedStrategy<Case> {
        (table_case(tier.pick(250, 400)), 1u8..40, vec(target(), 4..24))
            .prop_map(|(table, every, targets)| Case { table, every, targets })
            .boxed()
    }
    fn run(&self, c: &Case) -> Outcome {
        let rt = paused_rt(1);
        rt.block_on(async {
            let mut it = Interp::new(&c.table);
            let mut nt = false;
            let mut probes = 0u32;
            let n_ops = c.table.ops.len();
            for (n, op) in c.table.ops.iter().enumerate() {
                it.apply(op).await;
                if (n + 1) % c.every as usize != 0 && n + 1 != n_ops {
                    continue;
                }
                let d = dump(&it.table);
                let live = live_of(&d);
                for t in &c.targets {
                    let tid: Id = match t {
                        Target::Local => it.local,
                        Target::Flip { bit, tail } => make_id(&it.local, *bit as usize, *tail),
                        Target::NearNode { k, tail } => {
                            if live.is_empty() {
                                continue;
                            }
                            let node = &live[idx(*k, live.len())].1;
                            // keep a prefix of the node's id, randomise the rest
                            let keep = (lcp(&it.local, &node.id) + 1 + (*tail as usize) * 3).min(159);
                            make_id(&flip_bit(node.id, keep), keep, *tail)
                        }
                        Target::Random(v) => to_id(v),
                    };
                    probes += 1;
                    match check_closest(&it, &d, &tid) {
                        Ok(x) => nt |= x,
                        Err((k, dd)) => return Outcome::violation(k, format!("after op #{n}: {dd}")),
                    }
                }
            }
            let _ = probes;
            Outcome::pass(nt)
        })
    }
    fn rule(&self) -> String {
        "table states reached by C08-style operation sequences (probed after every k-th op and at the end) x 4..24 targets (local id, single-bit flips with random tails, ids near a table node, random ids); oracle: closest_nodes(target) is multiset-equal to the live nodes of a full dump, and per family its first 8 contain every live node sharing a longer prefix with the target than the local id; non-trivial: >=3 buckets, >=9 live nodes of the family and a non-empty must-contain set".into()
    }
    fn sample(&self, c: &Case) -> serde_json::Value {
        serde_json::json!({"n_ops": c.table.ops.len(), "probe_every": c.every, "targets": c.targets.iter().take(5).map(|t| format!("{t:?}")).collect::<Vec<_>>()})
    }
}

pub fn spec() -> PropertySpec {
    PropertySpec {
        id: "C09",
        stages: vec![Box::new(Closest)],
        assumptions: vec!["Component tier: RoutingTable::closest_nodes through hook H2; the family filter and take(8) replicate what the query handler applies and are checked on the wire in the wire stage.".into()],
        explanation: "Oracle: set/multiset comparison of the iterator output against a full dump of all buckets.".into(),
    }
}
