//! C09 — closest-node lists (component tier on the real RoutingTable; wire tier in c09w).

use super::table_common::*;
use super::table_common::paused_rt;
use crate::engine::*;
use btdht::InfoHash;
use proptest::collection::vec;
use proptest::prelude::*;
use serde::{Deserialize, Serialize};
use std::collections::HashMap;
use std::net::SocketAddr;

#[derive(Clone, Debug, Serialize, Deserialize)]
pub enum Target {
    Local,
    /// local id with bit b flipped and a pseudo-random tail
    Flip { bit: u8, tail: u8 },
    /// shares `extra` more bits than necessary with the k-th live table node
    NearNode { k: u16, tail: u8 },
    Random(#[serde(with = "crate::bcodec::hexser")] Vec<u8>),
}

#[derive(Clone, Debug, Serialize, Deserialize)]
pub struct Case {
    table: TableCase,
    /// probe after every `every`-th operation
    every: u8,
    targets: Vec<Target>,
}

pub struct Closest;

fn target() -> impl Strategy<Value = Target> {
    prop_oneof![
        1 => Just(Target::Local),
        4 => (0u8..160, 0u8..4).prop_map(|(bit, tail)| Target::Flip { bit, tail }),
        3 => (any::<u16>(), 0u8..4).prop_map(|(k, tail)| Target::NearNode { k, tail }),
        2 => vec(any::<u8>(), 20).prop_map(Target::Random),
    ]
}

pub fn check_closest(it: &Interp, d: &Dump, t: &Id) -> Result<bool, (String, String)> {
    let live: Vec<(usize, Slot)> = live_of(d);
    let listed: Vec<(Id, SocketAddr)> =
        it.table.closest_nodes(InfoHash::from(*t)).map(|n| (n.id().into(), n.addr())).collect();
    // multiset equality with the live set
    let mut count: HashMap<(Id, SocketAddr), i32> = HashMap::new();
    for (_, s) in &live {
        *count.entry(s.handle()).or_insert(0) += 1;
    }
    for h in &listed {
        *count.entry(*h).or_insert(0) -= 1;
    }
    if let Some((h, c)) = count.iter().find(|(_, c)| **c != 0) {
        let what = if *c > 0 { "enumeration-misses-node" } else { "enumeration-duplicates-or-invents-node" };
        return Err((
            what.into(),
            format!(
                "target {}: node ({}, {}) balance {c} (live {} listed {})",
                crate::bcodec::hex(t),
                crate::bcodec::hex(&h.0),
                h.1,
                live.len(),
                listed.len()
            ),
        ));
    }
    // per family: the first 8 of the filtered enumeration contain every node sharing a longer
    // prefix with the target than the local id does
    let start = lcp(&it.local, t);
    let mut nontrivial = false;
    for v6 in [false, true] {
        let fam: Vec<&(Id, SocketAddr)> = listed.iter().filter(|h| h.1.is_ipv6() == v6).collect();
        let first8: Vec<&(Id, SocketAddr)> = fam.iter().take(8).copied().collect();
        let lf = live.iter().filter(|(_, s)| s.addr.is_ipv6() == v6).count();
        if first8.len() != lf.min(8) {
            return Err(("list-length".into(), format!("family v6={v6}: {} listed, {} live", first8.len(), lf)));
        }
        let must: Vec<&(usize, Slot)> =
            live.iter().filter(|(_, s)| s.addr.is_ipv6() == v6 && lcp(&s.id, t) > start).collect();
        for (_, m) in &must {
            if !first8.iter().any(|h| **h == m.handle()) {
                return Err((
                    "closer-node-omitted".into(),
                    format!(
                        "target {} (shares {start} bits with local): node {} shares {} bits with the target but is not among the first 8 of family v6={v6}",
                        crate::bcodec::hex(t),
                        crate::bcodec::hex(&m.id),
                        lcp(&m.id, t)
                    ),
                ));
            }
        }
        if !must.is_empty() && lf >= 9 {
            nontrivial = true;
        }
    }
    Ok(nontrivial && d.len() >= 3)
}

impl Stage for Closest {
    type Case = Case;
    fn name(&self) -> &'static str {
        "iterator"
    }
    fn cases(&self, tier: Tier) -> u32 {
        tier.pick(3000, 60_000)
    }
    fn strategy(&self, tier: Tier) -> BoxedStrategy<Case> {
        (table_case(tier.pick(250, 400)), 1u8..40, vec(target(), 4..24))
            .prop_map(|(table, every, targets)| Case { table, every, targets })
            .boxed()
    }
    fn run(&self, c: &Case) -> Outcome {
        let rt = paused_rt(1);
        rt.block_on(async {
            let mut it = Interp::new(&c.table);
            let mut nt = false;
            let mut probes = 0u32;
            let n_ops = c.table.ops.len();
            for (n, op) in c.table.ops.iter().enumerate() {
                if let Applied::Response { id, addr, named, named_addr } = it.apply(op).await {
                    it.respond(id, addr, named, named_addr);
                }
                if (n + 1) % c.every as usize != 0 && n + 1 != n_ops {
                    continue;
                }
                let d = dump(&it.table);
                let live = live_of(&d);
                for t in &c.targets {
                    let tid: Id = match t {
                        Target::Local => it.local,
                        Target::Flip { bit, tail } => make_id(&it.local, *bit as usize, *tail),
                        Target::NearNode { k, tail } => {
                            if live.is_empty() {
                                continue;
                            }
                            let node = &live[idx(*k, live.len())].1;
                            // keep a prefix of the node's id, randomise the rest
                            let keep = (lcp(&it.local, &node.id) + 1 + (*tail as usize) * 3).min(159);
                            make_id(&flip_bit(node.id, keep), keep, *tail)
                        }
                        Target::Random(v) => to_id(v),
                    };
                    probes += 1;
                    match check_closest(&it, &d, &tid) {
                        Ok(x) => nt |= x,
                        Err((k, dd)) => return Outcome::violation(k, format!("after op #{n}: {dd}")),
                    }
                }
            }
            let _ = probes;
            Outcome::pass(nt)
        })
    }
    fn rule(&self) -> String {
        "table states reached by C08-style operation sequences (probed after every k-th op and at the end) x 4..24 targets (local id, single-bit flips with random tails, ids near a table node, random ids); oracle: closest_nodes(target) is multiset-equal to the live nodes of a full dump, and per family its first 8 contain every live node sharing a longer prefix with the target than the local id; non-trivial: >=3 buckets, >=9 live nodes of the family and a non-empty must-contain set".into()
    }
    fn sample(&self, c: &Case) -> serde_json::Value {
        serde_json::json!({"n_ops": c.table.ops.len(), "probe_every": c.every, "targets": c.targets.iter().take(5).map(|t| format!("{t:?}")).collect::<Vec<_>>()})
    }
}

pub fn spec() -> PropertySpec {
    PropertySpec {
        id: "C09",
        stages: vec![Box::new(Closest), Box::new(Wire)],
        assumptions: vec!["Component tier: RoutingTable::closest_nodes through hook H2; the family filter and take(8) replicate what the query handler applies and are checked on the wire in the wire stage.".into()],
        explanation: "Oracle: set/multiset comparison of the iterator output against a full dump of all buckets.".into(),
    }
}

// ---------------------------------------------------------------------------------------------
// Wire tier: a real node whose table is populated through scripted contacts

use crate::bcodec::{KBody, KMsg, KQuery, KResp, KWant};
use crate::sim::{within, EvKind, Instant0, SimNet};
use crate::world::*;
use std::collections::HashSet;
use std::time::Duration;

#[derive(Clone, Debug, Serialize, Deserialize)]
pub struct WPuppet {
    /// number of leading bits shared with the node id
    bit: u8,
    tail: u8,
    silent: bool,
    other_family: bool,
}

#[derive(Clone, Debug, Serialize, Deserialize)]
pub struct WQuery {
    get_peers: bool,
    target: Target,
    want: KWant,
}

#[derive(Clone, Debug, Serialize, Deserialize)]
pub struct WireCase {
    v6: bool,
    puppets: Vec<WPuppet>,
    /// when the queries are made (s): shortly after bootstrap or after the 15-minute mark
    at_s: u32,
    queries: Vec<WQuery>,
    full_dump: bool,
    rt_seed: u64,
}

pub struct Wire;

const WNODE: Id = [0x9c; 20];

impl Stage for Wire {
    type Case = WireCase;
    fn name(&self) -> &'static str {
        "wire"
    }
    fn cases(&self, tier: Tier) -> u32 {
        tier.pick(1500, 20000)
    }
    fn strategy(&self, _t: Tier) -> BoxedStrategy<WireCase> {
        let puppet = (prop_oneof![3 => 0u8..4, 3 => 0u8..12, 1 => 0u8..40], 0u8..30, prop::bool::weighted(0.15), prop::bool::weighted(0.1))
            .prop_map(|(bit, tail, silent, other_family)| WPuppet { bit, tail, silent, other_family });
        let q = (any::<bool>(), target(), super::c13::want()).prop_map(|(get_peers, target, want)| WQuery { get_peers, target, want });
        (
            any::<bool>(),
            prop_oneof![1 => vec(puppet.clone(), 1..9), 3 => vec(puppet, 9..60)],
            prop_oneof![3 => 30u32..120, 1 => 930u32..1100],
            vec(q, 2..10),
            prop::bool::weighted(0.5),
            any::<u64>(),
        )
            .prop_map(|(v6, puppets, at_s, queries, full_dump, rt_seed)| WireCase { v6, puppets, at_s, queries, full_dump, rt_seed })
            .boxed()
    }
    fn watchdog_secs(&self, tier: Tier) -> u64 {
        tier.pick(600, 1800)
    }
    fn run(&self, c: &WireCase) -> Outcome {
        let rt = paused_rt(c.rt_seed);
        rt.block_on(async {
            let net = SimNet::new(Box::new(Instant0));
            let node = super::single::fam_addr(c.v6, 1, 6881);
            // distinct (id, addr) per puppet
            let mut world: Vec<(Id, SocketAddr)> = vec![];
            let mut used: HashSet<Id> = HashSet::new();
            for (i, p) in c.puppets.iter().enumerate() {
                let mut id = make_id(&WNODE, p.bit as usize, p.tail);
                id[19] = i as u8; // keep ids distinct without touching the shared prefix (bit < 152)
                if !used.insert(id) {
                    continue;
                }
                world.push((id, super::single::fam_addr(c.v6 ^ p.other_family, 100 + i as u16, 7000)));
            }
            let id_of_addr: std::collections::HashMap<SocketAddr, Id> = world.iter().map(|(i, a)| (*a, *i)).collect();
            for (i, p) in c.puppets.iter().enumerate() {
                let a = super::single::fam_addr(c.v6 ^ p.other_family, 100 + i as u16, 7000);
                let Some(id) = id_of_addr.get(&a).copied() else { continue };
                if p.silent {
                    continue;
                }
                spawn_simple_contact(&net, a, id, world.clone(), 2);
            }
            let dht = start_node(&net, &NodeCfg { addr: node, id: WNODE, read_only: false, nodes: world.iter().map(|w| w.1).collect(), routers: vec![], announce_port: None });
            net.sleep_until(Duration::from_secs(c.at_s as u64)).await;
            let prober = super::single::fam_addr(c.v6, 900, 9000);
            let live = |dht: btdht::MainlineDht| async move {
                within(Duration::from_secs(2), dht.load_contacts()).await.and_then(|r| r.ok()).map(|(g, q)| g.union(&q).copied().collect::<HashSet<SocketAddr>>())
            };
            let ask = |q: KQuery| {
                let net = net.clone();
                async move {
                    let start = net.log_len();
                    net.inject(prober, node, &KMsg { tid: b"w9".to_vec(), body: KBody::Query(q) }.encode());
                    net.settle().await;
                    let replies: Vec<KResp> = sent_by(&net.log_from(start), node)
                        .into_iter()
                        .filter(|(e, _)| e.to == prober)
                        .filter_map(|(_, m)| match m {
                            Some(KMsg { body: KBody::Resp(r), .. }) => Some(r),
                            _ => None,
                        })
                        .collect();
                    replies
                }
            };
            let mut nt = false;
            for (n, q) in c.queries.iter().enumerate() {
                let Some(before) = live(dht.clone()).await else { return Outcome::violation("node-dead", "load_contacts does not answer") };
                let t: Id = match &q.target {
                    Target::Local => WNODE,
                    Target::Flip { bit, tail } => make_id(&WNODE, *bit as usize, *tail),
                    Target::NearNode { k, tail } => {
                        if world.is_empty() {
                            WNODE
                        } else {
                            let node_id = world[idx(*k, world.len())].0;
                            let keep = (lcp(&WNODE, &node_id) + 1 + (*tail as usize) * 3).min(159);
                            make_id(&flip_bit(node_id, keep), keep, *tail)
                        }
                    }
                    Target::Random(v) => to_id(v),
                };
                let query = if q.get_peers {
                    KQuery::GetPeers { id: vec![0x31; 20], info_hash: t.to_vec(), want: q.want }
                } else {
                    KQuery::FindNode { id: vec![0x31; 20], target: t.to_vec(), want: q.want }
                };
                let replies = ask(query).await;
                let Some(after) = live(dht.clone()).await else { return Outcome::violation("node-dead", "load_contacts does not answer") };
                if replies.len() != 1 {
                    return Outcome::violation("reply-count", format!("query #{n}: {} replies", replies.len()));
                }
                let r = &replies[0];
                let (w4, w6) = match q.want {
                    KWant::Absent => (!c.v6, c.v6),
                    KWant::N4 => (true, false),
                    KWant::N6 => (false, true),
                    KWant::Both => (true, true),
                };
                for v6fam in [false, true] {
                    let wanted = if v6fam { w6 } else { w4 };
                    let listed: Vec<(Id, SocketAddr)> = if v6fam {
                        r.nodes6.iter().map(|(i, a)| (*i, SocketAddr::V6(*a))).collect()
                    } else {
                        r.nodes.iter().map(|(i, a)| (*i, SocketAddr::V4(*a))).collect()
                    };
                    if !wanted {
                        if !listed.is_empty() {
                            return Outcome::violation("unrequested-family", format!("query #{n} want {:?}: {} nodes of family v6={v6fam}", q.want, listed.len()));
                        }
                        continue;
                    }
                    let both: HashSet<SocketAddr> = before.intersection(&after).filter(|a| a.is_ipv6() == v6fam).copied().collect();
                    let either: HashSet<SocketAddr> = before.union(&after).filter(|a| a.is_ipv6() == v6fam).copied().collect();
                    let what = format!("query #{n} ({} target {} want {:?}, family v6={v6fam})", if q.get_peers { "get_peers" } else { "find_node" }, crate::bcodec::hex(&t), q.want);
                    let set: HashSet<(Id, SocketAddr)> = listed.iter().copied().collect();
                    if set.len() != listed.len() {
                        return Outcome::violation("duplicate-node-in-reply", format!("{what}: {} entries, {} distinct", listed.len(), set.len()));
                    }
                    for (i, a) in &listed {
                        if !either.contains(a) || id_of_addr.get(a) != Some(i) {
                            return Outcome::violation("reply-lists-node-not-in-table", format!("{what}: lists ({}, {a}) which is not a live table node (live: {})", crate::bcodec::hex(i), either.len()));
                        }
                    }
                    if listed.len() < both.len().min(8) || listed.len() > either.len().min(8) {
                        return Outcome::violation("wrong-number-of-nodes", format!("{what}: {} nodes listed, {}..{} live nodes of that family", listed.len(), both.len(), either.len()));
                    }
                    let start = lcp(&WNODE, &t);
                    let must: Vec<&SocketAddr> = both.iter().filter(|a| lcp(&id_of_addr[*a], &t) > start).collect();
                    for m in &must {
                        if !listed.iter().any(|(_, a)| a == *m) {
                            return Outcome::violation(
                                "closer-node-omitted",
                                format!("{what}: live node {m} shares {} prefix bits with the target (local node shares {start}) but is not listed; listed {:?}", lcp(&id_of_addr[*m], &t), listed.iter().map(|l| l.1).collect::<Vec<_>>()),
                            );
                        }
                    }
                    if !must.is_empty() && both.len() >= 9 {
                        nt = true;
                    }
                }
            }
            if c.full_dump {
                // 161 probes: union of the answers is the whole live table
                let Some(before) = live(dht.clone()).await else { return Outcome::violation("node-dead", "load_contacts does not answer") };
                let mut union: HashSet<SocketAddr> = HashSet::new();
                for bit in 0..=160usize {
                    let t = if bit == 160 { WNODE } else { flip_bit(WNODE, bit) };
                    for r in ask(KQuery::FindNode { id: vec![0x31; 20], target: t.to_vec(), want: KWant::Both }).await {
                        union.extend(r.nodes.iter().map(|n| SocketAddr::V4(n.1)));
                        union.extend(r.nodes6.iter().map(|n| SocketAddr::V6(n.1)));
                    }
                }
                let Some(after) = live(dht.clone()).await else { return Outcome::violation("node-dead", "load_contacts does not answer") };
                let both: HashSet<SocketAddr> = before.intersection(&after).copied().collect();
                let either: HashSet<SocketAddr> = before.union(&after).copied().collect();
                if let Some(a) = both.iter().find(|a| !union.contains(a)) {
                    return Outcome::violation("dump-misses-live-node", format!("the 161 find_node probes never list live node {a} ({} live, {} listed)", both.len(), union.len()));
                }
                if let Some(a) = union.iter().find(|a| !either.contains(a)) {
                    return Outcome::violation("dump-lists-dead-node", format!("a find_node probe lists {a} which is not in the contacts"));
                }
            }
            Outcome::pass(nt).label(if c.at_s > 900 { "after-15-min" } else { "fresh" }).label(if world.len() >= 9 { "table>=9" } else { "table<9" })
        })
    }
    fn rule(&self) -> String {
        "one real serving node whose routing table is populated through 1..59 scripted contacts with ids clustered around the node id (0..40 shared prefix bits, forcing splits), 15 % silent, 10 % of the other address family, all naming each other; at 30..120 s (fresh) or 15.5..18 min (stale entries) 2..9 find_node/get_peers queries with generated targets (own id, single-bit flips, near a table node, random) and want, each bracketed by load_contacts() snapshots; optionally 161 find_node probes (own id and its 160 single-bit flips). Oracle per requested family: distinct entries, each a live table node with its true id, exactly min(8, live) entries, containing every live node that shares a longer prefix with the target than the node itself; the probes' union equals the live table. Non-trivial: >= 9 live nodes of the family and a non-empty must-contain set".into()
    }
    fn sample(&self, c: &WireCase) -> serde_json::Value {
        serde_json::json!({"puppets": c.puppets.len(), "at_s": c.at_s, "full_dump": c.full_dump, "queries": c.queries.iter().take(4).map(|q| format!("{q:?}")).collect::<Vec<_>>()})
    }
}
