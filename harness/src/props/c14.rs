//! C14 — no datagram can crash, abort or exhaust the node.

use super::c13::kmsg;
use super::single::*;
use crate::bcodec::*;
use crate::engine::*;
use crate::sim::*;
use btdht::message::Message;
use futures_util::StreamExt;
use proptest::collection::vec;
use proptest::prelude::*;
use serde::{Deserialize, Serialize};
use std::time::Duration;

pub const MAX_DGRAM: usize = 1500;
const MAX_SINGLE_ALLOC: usize = 256 * 1024;
const MAX_TOTAL_ALLOC: usize = 8 * 1024 * 1024;

#[derive(Clone, Debug, Serialize, Deserialize)]
pub enum Base {
    Msg(KMsg),
    Empty,
    /// `open` repeated `depth` times, then `inner`, then 'e' * depth if `close`
    Nest { open: u8, depth: u16, inner: u8, close: bool },
}

#[derive(Clone, Debug, Serialize, Deserialize)]
pub enum Mut {
    /// give the selected byte string this declared length (text) instead of its real one
    LenPrefix { sel: u16, mag: u8, keep_content: bool },
    /// replace the selected subtree by an integer written as this text
    IntText { sel: u16, which: u8 },
    /// wrap the selected subtree in `levels` lists or dicts
    Wrap { sel: u16, levels: u16, dict: bool },
    /// replace the selected subtree by a value of another type
    SwapType { sel: u16, to: u8 },
    /// duplicate a dictionary entry
    DupKey { sel: u16 },
    /// make a text field non-UTF-8
    NonUtf8 { sel: u16 },
    /// blow a byte string (0: transaction id, 1: token, 2: error text / id, 3: a fresh unknown
    /// key's value) up to `len` bytes, shrunk as needed to keep the datagram within 1500 bytes
    Inflate { which: u8, len: u16 },
    Truncate { permille: u16 },
    Trailing(#[serde(with = "hexser")] Vec<u8>),
    SetByte { pos: u16, val: u8 },
    InsertRaw { pos: u16, #[serde(with = "hexser")] bytes: Vec<u8> },
}

#[derive(Clone, Debug, Serialize, Deserialize)]
pub struct Input {
    pub base: Base,
    pub muts: Vec<Mut>,
}

const MAGNITUDES: &[&str] = &[
    "0", "1", "1499", "1500", "1501", "65535", "65536", "2147483647", "2147483648", "4294967295",
    "4294967296", "99999999999", "9223372036854775807", "9223372036854775808",
    "18446744073709551615", "18446744073709551616", "100000000000", "999999999999999999999999999999",
    "00000000000000000005", "2000000000",
];
const INT_TEXTS: &[&str] = &[
    "i0e", "i-0e", "i+5e", "i00e", "i-1e", "i255e", "i256e", "i65535e", "i65536e", "i-32769e",
    "i9223372036854775807e", "i9223372036854775808e", "i-9223372036854775808e",
    "i-9223372036854775809e", "i18446744073709551616e", "ie", "i-e", "i1", "i1.5e", "i 1e",
    "i999999999999999999999999999999e",
];
const OPENS: &[&str] = &["l", "d1:x", "d0:", "d1:ad1:a", "ld1:t", "d1:r", "d1:e"];
const INNERS: &[&str] = &["", "i1e", "0:", "1:y", "e", "le", "de"];

/// positions of all subtrees in pre-order (paths as child index lists)
fn paths(b: &B, cur: &mut Vec<usize>, out: &mut Vec<Vec<usize>>) {
    out.push(cur.clone());
    match b {
        B::List(l) => {
            for (i, x) in l.iter().enumerate() {
                cur.push(i);
                paths(x, cur, out);
                cur.pop();
            }
        }
        B::Dict(kv) => {
            for (i, (_, x)) in kv.iter().enumerate() {
                cur.push(i);
                paths(x, cur, out);
                cur.pop();
            }
        }
        _ => {}
    }
}

fn at<'a>(b: &'a mut B, path: &[usize]) -> &'a mut B {
    let mut cur = b;
    for i in path {
        cur = match cur {
            B::List(l) => &mut l[*i],
            B::Dict(kv) => &mut kv[*i].1,
            _ => unreachable!(),
        };
    }
    cur
}

fn pick<'a>(b: &'a mut B, sel: u16, pred: impl Fn(&B) -> bool) -> Option<&'a mut B> {
    let mut all = vec![];
    paths(b, &mut vec![], &mut all);
    let mut cands: Vec<Vec<usize>> = vec![];
    for p in all {
        if pred(at(b, &p)) {
            cands.push(p);
        }
    }
    if cands.is_empty() {
        return None;
    }
    let p = cands[idx(sel, cands.len())].clone();
    Some(at(b, &p))
}

pub fn build(input: &Input) -> Vec<u8> {
    let mut tree = match &input.base {
        Base::Msg(m) => m.to_b(),
        Base::Empty => B::Raw(vec![]),
        Base::Nest { open, depth, inner, close } => {
            let o = OPENS[*open as usize % OPENS.len()];
            let mut v = Vec::new();
            for _ in 0..*depth {
                v.extend_from_slice(o.as_bytes());
            }
            v.extend_from_slice(INNERS[*inner as usize % INNERS.len()].as_bytes());
            if *close {
                v.extend(std::iter::repeat(b'e').take(*depth as usize * o.matches(|c| c == 'l' || c == 'd').count()));
            }
            B::Raw(v)
        }
    };
    let mut bytes: Option<Vec<u8>> = None;
    for m in &input.muts {
        match m {
            Mut::LenPrefix { sel, mag, keep_content } => {
                if let Some(x) = pick(&mut tree, *sel, |b| matches!(b, B::Bytes(_))) {
                    let content = if *keep_content { x.as_bytes().unwrap().to_vec() } else { vec![] };
                    let mut raw = MAGNITUDES[*mag as usize % MAGNITUDES.len()].as_bytes().to_vec();
                    raw.push(b':');
                    raw.extend(content);
                    *x = B::Raw(raw);
                }
            }
            Mut::IntText { sel, which } => {
                if let Some(x) = pick(&mut tree, *sel, |b| !matches!(b, B::Raw(_))) {
                    *x = B::Raw(INT_TEXTS[*which as usize % INT_TEXTS.len()].as_bytes().to_vec());
                }
            }
            Mut::Wrap { sel, levels, dict } => {
                if let Some(x) = pick(&mut tree, *sel, |_| true) {
                    let inner = x.encode();
                    let mut raw = vec![];
                    for _ in 0..*levels {
                        raw.extend_from_slice(if *dict { b"d1:x" } else { b"l" });
                    }
                    raw.extend(inner);
                    raw.extend(std::iter::repeat(b'e').take(*levels as usize));
                    *x = B::Raw(raw);
                }
            }
            Mut::SwapType { sel, to } => {
                if let Some(x) = pick(&mut tree, *sel, |b| !matches!(b, B::Raw(_))) {
                    *x = match to % 5 {
                        0 => B::Int(7),
                        1 => B::Bytes(b"abc".to_vec()),
                        2 => B::List(vec![]),
                        3 => B::Dict(vec![]),
                        _ => B::List(vec![B::Dict(vec![(b"a".to_vec(), B::Int(1))])]),
                    };
                }
            }
            Mut::DupKey { sel } => {
                if let Some(B::Dict(kv)) = pick(&mut tree, *sel, |b| matches!(b, B::Dict(kv) if !kv.is_empty())) {
                    let e = kv[0].clone();
                    kv.insert(0, e);
                }
            }
            Mut::NonUtf8 { sel } => {
                if let Some(B::Bytes(v)) = pick(&mut tree, *sel, |b| matches!(b, B::Bytes(v) if !v.is_empty())) {
                    v[0] = 0xff;
                    if v.len() > 1 {
                        v[1] = 0xfe;
                    }
                }
            }
            Mut::Inflate { which, len } => {
                let key: &str = match which % 4 {
                    0 => "t",
                    1 => "token",
                    2 => "e",
                    _ => "zz",
                };
                let fill = |n: usize| -> B { B::Bytes((0..n).map(|i| b'a' + (i % 23) as u8).collect()) };
                let set = |tree: &mut B, n: usize| match key {
                    "t" => {
                        if let Some(x) = tree.get_mut("t") {
                            *x = fill(n);
                        }
                    }
                    "token" => {
                        for d in ["a", "r"] {
                            if let Some(x) = tree.get_mut(d).and_then(|a| a.get_mut("token")) {
                                *x = fill(n);
                            }
                        }
                    }
                    "e" => {
                        if let Some(B::List(l)) = tree.get_mut("e") {
                            if l.len() == 2 {
                                l[1] = fill(n);
                            }
                        }
                    }
                    _ => {
                        if let B::Dict(kv) = tree {
                            kv.retain(|(k, _)| k != b"zz");
                            kv.push((b"zz".to_vec(), fill(n)));
                        }
                    }
                };
                if matches!(tree, B::Dict(_)) {
                    set(&mut tree, *len as usize);
                    let over = tree.encode().len().saturating_sub(MAX_DGRAM);
                    if over > 0 {
                        set(&mut tree, (*len as usize).saturating_sub(over + 2));
                    }
                }
            }
            Mut::Truncate { permille } => {
                let mut b = bytes.take().unwrap_or_else(|| tree.encode());
                let cut = b.len() * (*permille as usize % 1000) / 1000;
                b.truncate(cut);
                bytes = Some(b);
            }
            Mut::Trailing(t) => {
                let mut b = bytes.take().unwrap_or_else(|| tree.encode());
                b.extend_from_slice(t);
                bytes = Some(b);
            }
            Mut::SetByte { pos, val } => {
                let mut b = bytes.take().unwrap_or_else(|| tree.encode());
                if !b.is_empty() {
                    let i = idx(*pos, b.len());
                    b[i] = *val;
                }
                bytes = Some(b);
            }
            Mut::InsertRaw { pos, bytes: ins } => {
                let mut b = bytes.take().unwrap_or_else(|| tree.encode());
                let i = idx(*pos, b.len() + 1);
                let tail = b.split_off(i);
                b.extend_from_slice(ins);
                b.extend(tail);
                bytes = Some(b);
            }
        }
    }
    let mut out = bytes.unwrap_or_else(|| tree.encode());
    out.truncate(MAX_DGRAM);
    out
}

pub fn input() -> impl Strategy<Value = Input> {
    let base = prop_oneof![
        6 => kmsg().prop_map(Base::Msg),
        1 => Just(Base::Empty),
        2 => (0u8..OPENS.len() as u8, prop_oneof![1u16..20, 20u16..400, 370u16..=1500], 0u8..INNERS.len() as u8, any::<bool>())
            .prop_map(|(open, depth, inner, close)| Base::Nest { open, depth, inner, close }),
    ];
    let raw_chunk = prop_oneof![
        vec(any::<u8>(), 0..12),
        (0..MAGNITUDES.len()).prop_map(|i| format!("{}:", MAGNITUDES[i]).into_bytes()),
        (0..INT_TEXTS.len()).prop_map(|i| INT_TEXTS[i].as_bytes().to_vec()),
        Just(b"l".to_vec()),
        Just(b"d".to_vec()),
        Just(b"e".to_vec()),
    ];
    let m = prop_oneof![
        4 => (any::<u16>(), 0u8..MAGNITUDES.len() as u8, any::<bool>()).prop_map(|(sel, mag, keep_content)| Mut::LenPrefix { sel, mag, keep_content }),
        3 => (any::<u16>(), 0u8..INT_TEXTS.len() as u8).prop_map(|(sel, which)| Mut::IntText { sel, which }),
        3 => (any::<u16>(), prop_oneof![1u16..8, 8u16..200, 200u16..=750], any::<bool>()).prop_map(|(sel, levels, dict)| Mut::Wrap { sel, levels, dict }),
        3 => (any::<u16>(), 0u8..5).prop_map(|(sel, to)| Mut::SwapType { sel, to }),
        1 => any::<u16>().prop_map(|sel| Mut::DupKey { sel }),
        1 => any::<u16>().prop_map(|sel| Mut::NonUtf8 { sel }),
        3 => (0u8..4, prop_oneof![1 => 33u16..300, 2 => 300u16..1200, 3 => 1200u16..1480]).prop_map(|(which, len)| Mut::Inflate { which, len }),
        2 => (0u16..1000).prop_map(|permille| Mut::Truncate { permille }),
        1 => vec(any::<u8>(), 1..8).prop_map(Mut::Trailing),
        2 => (any::<u16>(), any::<u8>()).prop_map(|(pos, val)| Mut::SetByte { pos, val }),
        2 => (any::<u16>(), raw_chunk).prop_map(|(pos, bytes)| Mut::InsertRaw { pos, bytes }),
    ];
    (base, vec(m, 0..=8)).prop_map(|(base, muts)| Input { base, muts })
}

/// lenient tokenizer: how many bytes form a syntactically sensible bencode prefix
fn sensible_prefix(d: &[u8]) -> usize {
    let mut i = 0;
    while i < d.len() {
        match d[i] {
            b'l' | b'd' | b'e' => i += 1,
            b'i' => match d[i..].iter().position(|c| *c == b'e') {
                Some(p) => i += p + 1,
                None => return i,
            },
            b'0'..=b'9' => {
                let mut j = i;
                while j < d.len() && d[j].is_ascii_digit() {
                    j += 1;
                }
                if j >= d.len() || d[j] != b':' {
                    return i;
                }
                let n: usize = match std::str::from_utf8(&d[i..j]).unwrap().parse() {
                    Ok(n) => n,
                    Err(_) => return j + 1,
                };
                if n > d.len() - (j + 1) {
                    return j + 1;
                }
                i = j + 1 + n;
            }
            _ => return i,
        }
    }
    i
}

/// Facts about an input used to classify worker deaths.
fn describe(d: &[u8]) -> (bool, usize) {
    // (some declared string length exceeds the bytes remaining, maximum nesting depth)
    let mut i = 0;
    let mut depth = 0usize;
    let mut maxd = 0usize;
    let mut over = false;
    while i < d.len() {
        match d[i] {
            b'l' | b'd' => {
                depth += 1;
                maxd = maxd.max(depth);
                i += 1
            }
            b'e' => {
                depth = depth.saturating_sub(1);
                i += 1
            }
            b'i' => match d[i..].iter().position(|c| *c == b'e') {
                Some(p) => i += p + 1,
                None => break,
            },
            b'0'..=b'9' => {
                let mut j = i;
                while j < d.len() && d[j].is_ascii_digit() {
                    j += 1;
                }
                if j >= d.len() || d[j] != b':' {
                    break;
                }
                match std::str::from_utf8(&d[i..j]).unwrap().parse::<usize>() {
                    Ok(n) if n <= d.len() - (j + 1) => i = j + 1 + n,
                    _ => {
                        over = true;
                        break;
                    }
                }
            }
            _ => break,
        }
    }
    (over, maxd)
}

/// Decode on a 2 MiB stack (tokio's default worker stack) with allocation accounting.
fn guarded_decode(bytes: Vec<u8>) -> Result<(bool, usize, usize), String> {
    crate::alloc_count::reset();
    let h = std::thread::Builder::new()
        .stack_size(2 << 20)
        .spawn(move || {
            let r = std::panic::catch_unwind(|| Message::decode(&bytes).is_ok());
            let (largest, total) = crate::alloc_count::read();
            (r, largest, total)
        })
        .map_err(|e| e.to_string())?;
    match h.join() {
        Ok((Ok(ok), largest, total)) => Ok((ok, largest, total)),
        Ok((Err(p), _, _)) => Err(p.downcast_ref::<&str>().map(|s| s.to_string()).or_else(|| p.downcast_ref::<String>().cloned()).unwrap_or_else(|| "panic".into())),
        Err(_) => Err("decode thread died".into()),
    }
}

pub struct Decode;

impl Stage for Decode {
    type Case = Input;
    fn name(&self) -> &'static str {
        "decode"
    }
    fn cases(&self, tier: Tier) -> u32 {
        tier.pick(60_000, 2_000_000)
    }
    fn strategy(&self, _t: Tier) -> BoxedStrategy<Input> {
        input().boxed()
    }
    fn classify_death(&self, c: &Input) -> String {
        let b = build(c);
        let (over, depth) = describe(&b);
        if over {
            "worker-death/declared-length-exceeds-input".into()
        } else if depth >= 100 {
            "worker-death/deep-nesting".into()
        } else {
            "worker-death".into()
        }
    }
    fn run(&self, c: &Input) -> Outcome {
        let bytes = build(c);
        let n = bytes.len();
        let sp = sensible_prefix(&bytes);
        let valid = KMsg::decode(&bytes).is_ok();
        let shown = super::c13::show(&bytes[..n.min(120)]);
        match guarded_decode(bytes) {
            Err(p) => {
                let (over, _) = describe(&build(c));
                Outcome::violation(if over { "panic/declared-length-exceeds-input" } else { "panic" }, format!("decoding {n} bytes panicked: {p}; input starts {shown}"))
            }
            Ok((ok, largest, total)) => {
                if largest > MAX_SINGLE_ALLOC || total > MAX_TOTAL_ALLOC {
                    let (over, _) = describe(&build(c));
                    return Outcome::violation(
                        if over { "excessive-allocation/declared-length-exceeds-input" } else { "excessive-allocation" },
                        format!("decoding {n} bytes requested {total} bytes in total, largest single allocation {largest}; input starts {shown}"),
                    );
                }
                Outcome::pass(sp >= 8 && !valid && !c.muts.is_empty())
                    .label(if ok { "decoder:ok" } else { "decoder:err" })
                    .label(match &c.base {
                        Base::Msg(_) => "base:message",
                        Base::Empty => "base:empty",
                        Base::Nest { .. } => "base:nest",
                    })
            }
        }
    }
    fn rule(&self) -> String {
        "byte strings <= 1500 B built from a valid KRPC message (C13 generator), from nothing, or from up to 1500 levels of nesting, with 0..8 structure-aware mutations: declared string lengths of 20 magnitudes (0 .. 2^64 and beyond, 30 digits, leading zeros), 21 integer texts at the i64/u16/u8 limits and malformed, wrapping any subtree in up to 750 lists/dicts, type swaps in any position, duplicate keys, non-UTF-8 text, transaction ids / tokens / error texts / unknown values inflated up to the full datagram (still well-formed), truncation at any offset, trailing bytes, byte overwrites, raw insertions. Executed in a supervised worker on a 2 MiB stack under a counting allocator. Oracle: the worker answers (no death), no panic, largest single allocation <= 256 KiB, total requested <= 8 MiB. Non-trivial: mutated, not a valid message, and a sensible bencode prefix of >= 8 bytes survives".into()
    }
    fn sample(&self, c: &Input) -> serde_json::Value {
        let b = build(c);
        serde_json::json!({"len": b.len(), "bytes": super::c13::show(&b[..b.len().min(160)]), "mutations": c.muts.iter().map(|m| format!("{m:?}").chars().take(60).collect::<String>()).collect::<Vec<_>>()})
    }
    fn watchdog_secs(&self, tier: Tier) -> u64 {
        tier.pick(600, 1800)
    }
}

// ---------------------------------------------------------------------------------------------
// Node tier

#[derive(Clone, Debug, Serialize, Deserialize)]
pub struct NodeCase {
    v6: bool,
    with_contacts: bool,
    search_during: bool,
    /// (source selector, gap ms, datagram)
    dgrams: Vec<(u8, u16, Input)>,
    /// every datagram addressed to the node (the answers of its contacts included) is delivered
    /// this many times in the same instant (UDP may duplicate)
    #[serde(default)]
    dup: u8,
}

pub struct NodeTier;

impl Stage for NodeTier {
    type Case = NodeCase;
    fn name(&self) -> &'static str {
        "node"
    }
    fn cases(&self, tier: Tier) -> u32 {
        tier.pick(400, 6000)
    }
    fn strategy(&self, _t: Tier) -> BoxedStrategy<NodeCase> {
        // mutated datagrams, plain valid ones, and valid ones with one field blown up to the full
        // datagram size (still well-formed: they reach the handlers)
        let heavy = (kmsg(), 0u8..4, prop_oneof![1 => 33u16..600, 3 => 600u16..1480])
            .prop_map(|(m, which, len)| Input { base: Base::Msg(m), muts: vec![Mut::Inflate { which, len }] });
        let dgram = prop_oneof![
            5 => input(),
            2 => kmsg().prop_map(|m| Input { base: Base::Msg(m), muts: vec![] }),
            3 => heavy,
        ];
        (any::<bool>(), any::<bool>(), any::<bool>(), vec((any::<u8>(), prop_oneof![Just(0u16), 0u16..40, 0u16..3000], dgram), 10..120), prop_oneof![3 => Just(1u8), 2 => Just(2u8), 1 => Just(3u8)])
            .prop_map(|(v6, with_contacts, search_during, dgrams, dup)| NodeCase { v6, with_contacts, search_during, dgrams, dup })
            .boxed()
    }
    fn classify_death(&self, _c: &NodeCase) -> String {
        "worker-death".into()
    }
    fn run(&self, c: &NodeCase) -> Outcome {
        let rt = paused_rt(5);
        rt.block_on(async {
            let node = fam_addr(c.v6, 1, 6881);
            let dup = c.dup.max(1) as usize;
            let net = SimNet::new(Box::new(move |d: &Dgram| Fate::Deliver(vec![Duration::ZERO; if d.to == node { dup } else { 1 }])));
            let node_id: Id = [0x14; 20];
            let mut contacts = vec![];
            if c.with_contacts {
                for i in 0..5u16 {
                    let mut id = [0u8; 20];
                    id[0] = (i as u8) << 5;
                    contacts.push((id, fam_addr(c.v6, 100 + i, 7000)));
                }
                for (i, (id, a)) in contacts.iter().enumerate() {
                    if i != 4 {
                        crate::world::spawn_simple_contact(&net, *a, *id, contacts.clone(), 20);
                    } // the last one stays silent: keeps bootstrap exchanges in flight
                }
            }
            let dht = crate::world::start_node(&net, &crate::world::NodeCfg { addr: node, id: node_id, read_only: false, nodes: contacts.iter().map(|c| c.1).collect(), routers: vec![], announce_port: None });
            let solo = Solo { net: net.clone(), node, node_id, dht: None, v6: c.v6 };
            let mut pending_search = None;
            if c.search_during {
                pending_search = Some(dht.search(btdht::InfoHash::from([0x55; 20]), true));
            }
            let mut sources = vec![fam_addr(c.v6, 200, 9000), fam_addr(c.v6, 201, 9000), fam_addr(!c.v6, 300, 9000)];
            sources.extend(contacts.iter().map(|c| c.1));
            let mut sent = 0;
            for (src, gap, inp) in &c.dgrams {
                tokio::time::sleep(Duration::from_millis(*gap as u64)).await;
                let bytes = build(inp);
                let src = sources[idx((*src as u16) << 8, sources.len())];
                net.inject(src, node, &bytes);
                sent += 1;
            }
            net.settle().await;
            drop(pending_search);
            // liveness: one ping reply, API calls complete
            let ping = KMsg { tid: b"alive".to_vec(), body: KBody::Query(KQuery::Ping { id: vec![0x77; 20] }) };
            match solo.ask1(fam_addr(c.v6, 400, 9999), &ping).await {
                Ok(KMsg { body: KBody::Resp(r), .. }) if r.id == node_id => {}
                other => return Outcome::violation("node-stopped-serving", format!("after {sent} datagrams a ping is answered with {other:?}")),
            }
            let lim = Duration::from_secs(10);
            let st = within(lim, dht.get_state()).await.flatten();
            match st {
                Some(s) if s.is_running => {}
                other => return Outcome::violation("node-dead", format!("get_state() -> {other:?} after {sent} datagrams")),
            }
            if within(lim, dht.load_contacts()).await.and_then(|r| r.ok()).is_none() {
                return Outcome::violation("node-dead", "load_contacts() does not complete");
            }
            if within(lim, dht.local_addr()).await.and_then(|r| r.ok()) != Some(node) {
                return Outcome::violation("node-dead", "local_addr() does not complete");
            }
            let mut s = dht.search(btdht::InfoHash::from([0x56; 20]), false);
            let done = within(Duration::from_secs(600), async { while s.next().await.is_some() {} }).await;
            if done.is_none() {
                return Outcome::violation("search-hangs", "a search issued after the datagram sequence does not complete within 600 virtual seconds");
            }
            Outcome::pass(true).label(if c.with_contacts { "bootstrapping" } else { "idle" })
        })
    }
    fn rule(&self) -> String {
        "sequences of 10..120 datagrams: 50 % from the decode tier's generator (mutated), 20 % plain valid messages, 30 % valid messages with the transaction id / token / error text / an unknown value blown up to as much as the datagram allows, from strangers' and contacts' addresses of both families, gaps 0..3 s, injected into a live serving node that is idle or bootstrapping against 5 contacts (one silent) and optionally has a search running; in half of the cases the network delivers every datagram addressed to the node (the answers of its contacts included) 2 or 3 times in the same instant. Oracle afterwards: a ping gets exactly one correct reply; get_state (is_running), load_contacts, local_addr complete within 10 virtual seconds; a new search stream ends. Every case non-trivial".into()
    }
    fn sample(&self, c: &NodeCase) -> serde_json::Value {
        serde_json::json!({"v6": c.v6, "with_contacts": c.with_contacts, "n": c.dgrams.len(), "first": c.dgrams.iter().take(3).map(|d| super::c13::show(&build(&d.2)).chars().take(80).collect::<String>()).collect::<Vec<_>>()})
    }
}

pub fn spec() -> PropertySpec {
    PropertySpec {
        id: "C14",
        stages: vec![Box::new(Decode), Box::new(NodeTier)],
        assumptions: vec![
            "Allocation bound: a <=1500-byte input may make the decoder request at most 256 KiB in one allocation and 8 MiB in total (legitimate decoding stays far below; measured maxima are in coverage.stages[].extra when available).".into(),
            "The decode tier runs in supervised child processes with a 12 GiB address-space limit; a worker death is attributed to the input in flight.".into(),
            "Stack: 2 MiB (tokio's default worker-thread stack), build: opt-level 2 with debug assertions and overflow checks.".into(),
        ],
        explanation: "Oracle: supervised-worker survival + panic hook + counting allocator for decoding; reply discipline and API liveness for a node after arbitrary datagram sequences.".into(),
    }
}
