//! Long-running "maintenance" worlds: one real serving node and up to 8 scripted contacts over
//! hours of virtual time. Used by C11 (keep the responsive, purge the silent), the wire tier of
//! C10 (status classification from observed events) and the wire tier of C19 (transaction ids).

use super::single::fam_addr;
use super::table_common::flip_bit;
use crate::bcodec::*;
use crate::engine::*;
use crate::sim::*;
use crate::world::*;
use btdht::InfoHash;
use futures_util::StreamExt;
use proptest::collection::vec;
use proptest::prelude::*;
use serde::{Deserialize, Serialize};
use std::collections::{HashMap, HashSet};
use std::net::SocketAddr;
use std::sync::Arc;
use std::time::Duration;

#[derive(Clone, Debug, Serialize, Deserialize)]
pub struct Puppet {
    /// answers everything before this time (s), nothing afterwards; None = always answers
    pub silent_from_s: Option<u32>,
    /// query->answer delay in ms (< 400)
    pub rtt_ms: u16,
    /// given to the node as a bootstrap contact
    pub is_contact: bool,
    /// other puppets keep naming this one for this long (s) after it went silent
    pub named_for_s: u32,
    /// times (s) at which this puppet sends the node a ping (while it is not silent)
    pub queries_at_s: Vec<u32>,
    /// the node's socket refuses to send to this puppet's address (port 0): every `send_to`
    /// fails; such a puppet is silent from the start and only ever known by hearsay
    #[serde(default)]
    pub unsendable: bool,
}

#[derive(Clone, Debug, Serialize, Deserialize)]
pub struct MaintCase {
    pub v6: bool,
    pub puppets: Vec<Puppet>,
    /// answering puppets name the other (recently alive) puppets in find_node / get_peers answers
    pub gossip: bool,
    pub secs: u32,
    /// user searches: (time s, announce, hash selector)
    pub searches: Vec<(u32, bool, u8)>,
    pub rt_seed: u64,
    /// IPv4 nodes only: the first bootstrap contact is given a second time in its IPv4-mapped
    /// IPv6 spelling (`[::ffff:a.b.c.d]:port`), which an IPv4 socket refuses to send to
    #[serde(default)]
    pub mapped_alias: bool,
}

pub struct Sample {
    pub t: u64,
    pub good: HashSet<SocketAddr>,
    pub quest: HashSet<SocketAddr>,
}

pub struct Trace {
    pub log: Vec<Ev>,
    pub samples: Vec<Sample>,
    /// (time ms, addresses offered in the find_node probe answer)
    pub probes: Vec<(u64, Vec<SocketAddr>)>,
    pub node: SocketAddr,
    pub node_id: Id,
    pub puppets: Vec<(Id, SocketAddr)>,
    pub dead_at: Option<u64>,
}

pub const NODE_ID: Id = [0xA1; 20];

pub fn puppet_id(i: usize) -> Id {
    let mut id = flip_bit(NODE_ID, i);
    id[12] = 0x50 + i as u8;
    id[19] = i as u8;
    id
}

pub fn run_maint(c: &MaintCase, sample_ms: u64, probe_ms: u64) -> Trace {
    let rt = paused_rt(c.rt_seed);
    rt.block_on(async {
        let node = fam_addr(c.v6, 1, 6881);
        let puppets: Vec<(Id, SocketAddr)> = (0..c.puppets.len()).map(|i| (puppet_id(i), fam_addr(c.v6, 100 + i as u16, if c.puppets[i].unsendable { 0 } else { 7000 + i as u16 }))).collect();
        let mut bad: Vec<SocketAddr> = puppets.iter().zip(&c.puppets).filter(|(_, s)| s.unsendable).map(|(p, _)| p.1).collect();
        let mapped: Option<SocketAddr> = if c.mapped_alias && !c.v6 {
            c.puppets.iter().zip(&puppets).find(|(s, _)| s.is_contact).and_then(|(_, p)| match p.1 {
                SocketAddr::V4(a) => Some(SocketAddr::new(std::net::IpAddr::V6(a.ip().to_ipv6_mapped()), a.port())),
                _ => None,
            })
        } else {
            None
        };
        bad.extend(mapped);
        let net = SimNet::new(Box::new(move |d: &Dgram| if d.from == node && bad.contains(&d.to) { Fate::SendError } else { Fate::Deliver(vec![Duration::ZERO]) }));
        let specs = Arc::new(c.puppets.clone());
        for (i, (id, a)) in puppets.iter().enumerate() {
            let specs = specs.clone();
            let all = puppets.clone();
            let id = *id;
            let gossip = c.gossip;
            spawn_puppet(&net, *a, move |_raw, msg, from, now| {
                let s = now.as_secs() as u32;
                if specs[i].silent_from_s.map(|t| s >= t).unwrap_or(false) {
                    return vec![];
                }
                let Some(m) = msg else { return vec![] };
                let KBody::Query(q) = &m.body else { return vec![] };
                let named: Vec<(Id, SocketAddr)> = if gossip {
                    all.iter()
                        .enumerate()
                        .filter(|(j, _)| *j != i)
                        .filter(|(j, _)| match specs[*j].silent_from_s {
                            None => true,
                            Some(t) => s < t.saturating_add(specs[*j].named_for_s),
                        })
                        .map(|(_, x)| *x)
                        .collect()
                } else {
                    vec![]
                };
                let (nodes, nodes6) = node_lists(&named);
                let r = match q {
                    KQuery::Ping { .. } | KQuery::Announce { .. } => KResp { id: id.to_vec(), ..Default::default() },
                    KQuery::FindNode { .. } => KResp { id: id.to_vec(), nodes, nodes6, ..Default::default() },
                    KQuery::GetPeers { .. } => KResp { id: id.to_vec(), nodes, nodes6, token: Some(vec![i as u8; 6]), ..Default::default() },
                };
                vec![Out::after(specs[i].rtt_ms as u64, from, &resp(&m.tid, r))]
            });
            // the puppet's own queries to the node
            for (k, at) in c.puppets[i].queries_at_s.iter().enumerate() {
                if c.puppets[i].silent_from_s.map(|t| *at >= t).unwrap_or(false) {
                    continue;
                }
                let net2 = net.clone();
                let a = *a;
                let at = *at;
                tokio::spawn(async move {
                    net2.sleep_until(Duration::from_secs(at as u64)).await;
                    let _ = net2.send(a, node, &KMsg { tid: vec![b'Q', i as u8, k as u8], body: KBody::Query(KQuery::Ping { id: id.to_vec() }) }.encode());
                });
            }
        }
        let mut contacts: Vec<SocketAddr> = c.puppets.iter().zip(&puppets).filter(|(s, _)| s.is_contact).map(|(_, p)| p.1).collect();
        if let (Some(alias), Some(SocketAddr::V4(first))) = (mapped.as_ref(), contacts.first().copied()) {
            debug_assert_eq!(*alias, SocketAddr::new(std::net::IpAddr::V6(first.ip().to_ipv6_mapped()), first.port()));
            contacts.push(*alias);
        }
        let dht = start_node(&net, &NodeCfg { addr: node, id: NODE_ID, read_only: false, nodes: contacts, routers: vec![], announce_port: None });
        for (at, announce, h) in &c.searches {
            let d = dht.clone();
            let n2 = net.clone();
            let (at, announce, h) = (*at, *announce, *h);
            tokio::spawn(async move {
                n2.sleep_until(Duration::from_secs(at as u64)).await;
                let mut s = d.search(InfoHash::from([h.wrapping_mul(17) | 1; 20]), announce);
                while s.next().await.is_some() {}
            });
        }
        let end = c.secs as u64 * 1000;
        let mut samples = vec![];
        let mut probes = vec![];
        let mut t = 0u64;
        let mut next_probe = probe_ms;
        let mut dead_at = None;
        let prober = fam_addr(c.v6, 900, 9000);
        while t < end {
            t += sample_ms;
            net.sleep_until(Duration::from_millis(t)).await;
            match within(Duration::from_secs(2), dht.load_contacts()).await {
                Some(Ok((good, quest))) => samples.push(Sample { t: net.now_ms(), good, quest }),
                _ => {
                    dead_at = Some(t);
                    break;
                }
            }
            if probe_ms > 0 && t >= next_probe {
                next_probe += probe_ms;
                let start = net.log_len();
                net.inject(prober, node, &KMsg { tid: b"pr".to_vec(), body: KBody::Query(KQuery::FindNode { id: vec![0x77; 20], target: NODE_ID.to_vec(), want: KWant::Both }) }.encode());
                net.settle().await;
                for (e, m) in sent_by(&net.log_from(start), node) {
                    if e.to == prober {
                        if let Some(KMsg { body: KBody::Resp(r), .. }) = m {
                            let offered: Vec<SocketAddr> = r.nodes.iter().map(|n| SocketAddr::V4(n.1)).chain(r.nodes6.iter().map(|n| SocketAddr::V6(n.1))).collect();
                            probes.push((net.now_ms(), offered));
                        }
                    }
                }
            }
        }
        Trace { log: net.log(), samples, probes, node, node_id: NODE_ID, puppets, dead_at }
    })
}

pub fn puppet_strategy(max_secs: u32) -> impl Strategy<Value = Puppet> {
    (
        prop_oneof![3 => Just(None), 4 => (0u32..max_secs).prop_map(Some)],
        prop_oneof![Just(0u16), 1u16..50, 50u16..390],
        any::<bool>(),
        prop_oneof![Just(0u32), 0u32..120, 0u32..900],
        vec(0u32..max_secs, 0..6),
    )
        .prop_map(|(silent_from_s, rtt_ms, is_contact, named_for_s, queries_at_s)| Puppet { silent_from_s, rtt_ms, is_contact, named_for_s, queries_at_s, unsendable: false })
}

pub fn maint_case(min_secs: u32, max_secs: u32, with_searches: bool, max_puppets: usize) -> BoxedStrategy<MaintCase> {
    maint_case_u(min_secs, max_secs, with_searches, max_puppets, false)
}

/// `with_unsendable`: some puppets (1 in 8) get an address the node cannot send to
pub fn maint_case_u(min_secs: u32, max_secs: u32, with_searches: bool, max_puppets: usize, with_unsendable: bool) -> BoxedStrategy<MaintCase> {
    maint_case_um(min_secs, max_secs, with_searches, max_puppets, with_unsendable, false)
}

/// `with_mapped`: 30 % of the cases give the first contact a second time in IPv4-mapped spelling
pub fn maint_case_um(min_secs: u32, max_secs: u32, with_searches: bool, max_puppets: usize, with_unsendable: bool, with_mapped: bool) -> BoxedStrategy<MaintCase> {
    (min_secs..max_secs)
        .prop_flat_map(move |secs| {
            (
                any::<bool>(),
                vec(puppet_strategy(secs), 1..=max_puppets),
                prop::bool::weighted(0.7),
                Just(secs),
                if with_searches { vec((0u32..secs, any::<bool>(), 0u8..3), 0..4).boxed() } else { Just(vec![]).boxed() },
                any::<u64>(),
                any::<bool>(),
                vec(prop::bool::weighted(if with_unsendable { 0.125 } else { 0.0 }), max_puppets),
                prop::bool::weighted(if with_mapped { 0.3 } else { 0.0 }),
            )
        })
        .prop_map(|(v6, mut puppets, gossip, secs, searches, rt_seed, single, unsendable, mapped_alias)| {
            for (p, u) in puppets.iter_mut().zip(unsendable) {
                if u {
                    p.unsendable = true;
                    p.silent_from_s = Some(0);
                    p.queries_at_s.clear();
                }
            }
            // regimes: single contact (periodic re-bootstrap through one door) or well connected;
            // at least one contact always exists
            if single {
                for p in puppets.iter_mut() {
                    p.is_contact = false;
                }
            }
            if !puppets.iter().any(|p| p.is_contact) {
                puppets[0].is_contact = true;
            }
            MaintCase { v6, puppets, gossip, secs, searches, rt_seed, mapped_alias }
        })
        .boxed()
}

// ---------------------------------------------------------------------------------------------
// Event extraction from the wire log

#[derive(Default, Clone)]
pub struct PuppetEvents {
    /// times (ms) of responses from the puppet delivered to the node that match a query the node
    /// sent to it at most 1.4 s earlier (same transaction id)
    pub answers: Vec<u64>,
    /// times the node sent the puppet a query: (t, is_initial_round_find_node)
    pub queries_to: Vec<(u64, bool)>,
    /// times a query from the puppet was delivered to the node
    pub queries_from: Vec<u64>,
    /// times an accepted response from anybody naming this puppet was delivered to the node
    pub mentions: Vec<u64>,
}

pub fn extract(tr: &Trace) -> Vec<PuppetEvents> {
    let mut out = vec![PuppetEvents::default(); tr.puppets.len()];
    let index: HashMap<SocketAddr, usize> = tr.puppets.iter().enumerate().map(|(i, p)| (p.1, i)).collect();
    // outstanding queries: (to, tid) -> send time
    let mut outstanding: HashMap<(SocketAddr, Vec<u8>), u64> = HashMap::new();
    for e in &tr.log {
        let Ok(m) = KMsg::decode(&e.bytes) else { continue };
        match (&e.kind, &m.body) {
            (EvKind::Send { .. }, KBody::Query(q)) if e.from == tr.node => {
                outstanding.insert((e.to, m.tid.clone()), e.ms());
                if let Some(i) = index.get(&e.to) {
                    let initial = matches!(q, KQuery::FindNode { target, .. } if target[..] == tr.node_id[..]);
                    out[*i].queries_to.push((e.ms(), initial));
                }
            }
            (EvKind::Deliver, KBody::Resp(r)) if e.to == tr.node => {
                let accepted = outstanding.get(&(e.from, m.tid.clone())).map(|t| e.ms() - t <= 1400).unwrap_or(false);
                if !accepted {
                    continue;
                }
                if let Some(i) = index.get(&e.from) {
                    out[*i].answers.push(e.ms());
                }
                for a in r.nodes.iter().map(|n| SocketAddr::V4(n.1)).chain(r.nodes6.iter().map(|n| SocketAddr::V6(n.1))) {
                    if let Some(j) = index.get(&a) {
                        out[*j].mentions.push(e.ms());
                    }
                }
            }
            (EvKind::Deliver, KBody::Query(_)) if e.to == tr.node => {
                if let Some(i) = index.get(&e.from) {
                    out[*i].queries_from.push(e.ms());
                }
            }
            _ => {}
        }
    }
    out
}

// ---------------------------------------------------------------------------------------------
// C11

pub struct C11Runs;

impl Stage for C11Runs {
    type Case = MaintCase;
    fn name(&self) -> &'static str {
        "maintenance"
    }
    fn cases(&self, tier: Tier) -> u32 {
        tier.pick(320, 3000)
    }
    fn strategy(&self, tier: Tier) -> BoxedStrategy<MaintCase> {
        maint_case_u(1800, tier.pick(3 * 3600, 12 * 3600), true, 8, true)
    }
    fn watchdog_secs(&self, tier: Tier) -> u64 {
        tier.pick(900, 3600)
    }
    fn run(&self, c: &MaintCase) -> Outcome {
        let tr = run_maint(c, 2000, 30_000);
        if let Some(t) = tr.dead_at {
            return Outcome::violation("node-dead", format!("load_contacts stopped answering at t={t} ms"));
        }
        let ev = extract(&tr);
        let mut named_after_silence = false;
        for (i, p) in c.puppets.iter().enumerate() {
            let addr = tr.puppets[i].1;
            match p.silent_from_s {
                None => {
                    // always answering: never lost once admitted; not-good intervals < 30 s
                    let mut admitted = false;
                    let mut not_good_since: Option<u64> = None;
                    for s in &tr.samples {
                        let present = s.good.contains(&addr) || s.quest.contains(&addr);
                        if !admitted {
                            if present {
                                admitted = true;
                            } else {
                                continue;
                            }
                        }
                        if !present {
                            // how many queries to it are in flight (sent, not yet answered, younger than 1.5 s)?
                            let answered: HashSet<Vec<u8>> = tr
                                .log
                                .iter()
                                .filter(|e| e.from == addr && e.to == tr.node && e.kind == EvKind::Deliver && e.ms() <= s.t)
                                .filter_map(|e| KMsg::decode(&e.bytes).ok().map(|m| m.tid))
                                .collect();
                            let inflight = tr
                                .log
                                .iter()
                                .filter(|e| e.from == tr.node && e.to == addr && matches!(e.kind, EvKind::Send { .. }) && e.ms() <= s.t && e.ms() + 1500 > s.t)
                                .filter_map(|e| KMsg::decode(&e.bytes).ok())
                                .filter(|m| matches!(m.body, KBody::Query(_)) && !answered.contains(&m.tid))
                                .count();
                            let kind = if inflight >= 2 { "responsive-contact-lost/two-queries-in-flight" } else { "responsive-contact-lost" };
                            return Outcome::violation(kind, format!("puppet {i} ({addr}) always answers but is absent from the contacts at t={} ms ({inflight} queries to it in flight)", s.t));
                        }
                        if s.good.contains(&addr) {
                            not_good_since = None;
                        } else {
                            let since = *not_good_since.get_or_insert(s.t);
                            if s.t - since >= 30_000 {
                                return Outcome::violation("responsive-contact-stays-questionable", format!("puppet {i} ({addr}) always answers but has not been reported good from t={since} ms to t={} ms", s.t));
                            }
                        }
                    }
                }
                Some(_) => {
                    let a = ev[i].answers.iter().max().copied();
                    let m = ev[i].mentions.iter().max().copied();
                    // a query from the contact is a sign of life like an answer (the property speaks
                    // of contacts that "neither answer nor query"): the 20 minutes run from the later
                    let q = ev[i].queries_from.iter().max().copied();
                    let Some(bound) = [a.map(|t| t + 20 * 60_000), q.map(|t| t + 20 * 60_000), m.map(|t| t + 5 * 60_000)].into_iter().flatten().max() else { continue };
                    if m.unwrap_or(0) > p.silent_from_s.unwrap() as u64 * 1000 {
                        named_after_silence = true;
                    }
                    for s in tr.samples.iter().filter(|s| s.t > bound) {
                        if s.good.contains(&addr) || s.quest.contains(&addr) {
                            return Outcome::violation(
                                "silent-contact-not-purged",
                                format!("puppet {i} ({addr}) silent since {} s: still in the contacts at t={} ms (last answer at {a:?} ms, last named at {m:?} ms, deadline {bound} ms)", p.silent_from_s.unwrap(), s.t),
                            );
                        }
                    }
                    for (t, offered) in tr.probes.iter().filter(|(t, _)| *t > bound) {
                        if offered.contains(&addr) {
                            return Outcome::violation("silent-contact-offered-to-others", format!("puppet {i} ({addr}) silent since {} s is still offered in a find_node answer at t={t} ms (deadline {bound} ms)", p.silent_from_s.unwrap()));
                        }
                    }
                }
            }
        }
        let both = c.puppets.iter().any(|p| p.silent_from_s.is_none()) && c.puppets.iter().any(|p| p.silent_from_s.is_some());
        Outcome::pass((c.secs >= 2700 && both) || named_after_silence)
            .label(if c.puppets.iter().filter(|p| p.is_contact).count() == 1 { "single-contact" } else { "well-connected" })
            .label(if c.searches.is_empty() { "no-searches" } else { "with-searches" })
    }
    fn rule(&self) -> String {
        "one real serving node and 1..8 scripted contacts (ids in distinct buckets, so no bucket fills), each always answering or silent from a generated time (1 in 8: an address with port 0 that the node's socket refuses to send to, known by hearsay only), round trips < 400 ms, loss-free; single-contact regime (one bootstrap contact, the rest learnt by hearsay) or well connected; contacts name each other (and keep naming a silent one for 0..15 min); 0..3 user searches; optional pings from contacts; run length 30 min..3 h (thorough ..12 h). Contacts sampled every 2 virtual seconds, find_node probe every 30 s. Oracle: an always-answering contact, once in the contacts, is in every later sample and never outside `good` for 30 s or more; a contact silent since t is absent from contacts and probe answers after max(last delivered answer (or last query from it) + 20 min, last time a delivered response named it + 5 min). Non-trivial: run >= 45 min with contacts of both kinds, or a silent contact that was still named after it went silent".into()
    }
    fn sample(&self, c: &MaintCase) -> serde_json::Value {
        serde_json::json!({"secs": c.secs, "gossip": c.gossip, "puppets": c.puppets.iter().map(|p| format!("silent_from={:?} rtt={} contact={} named_for={}", p.silent_from_s, p.rtt_ms, p.is_contact, p.named_for_s)).collect::<Vec<_>>(), "searches": c.searches})
    }
}

pub fn spec_c11() -> PropertySpec {
    PropertySpec {
        id: "C11",
        stages: vec![Box::new(C11Runs)],
        assumptions: vec![
            "Loss-free simulated network, query->answer round trips < 400 ms, at most 8 contacts in distinct buckets (no bucket full), as the property presupposes.".into(),
            "'Last answer' and 'last time named' are taken from delivered datagrams in the wire log.".into(),
        ],
        explanation: "Oracle: deadlines on samples of load_contacts() and find_node probe answers over hours of virtual time.".into(),
    }
}

// ---------------------------------------------------------------------------------------------
// C10 wire tier

pub struct C10Wire;

const MIN15: u64 = 15 * 60_000;

impl Stage for C10Wire {
    type Case = MaintCase;
    fn name(&self) -> &'static str {
        "wire"
    }
    fn cases(&self, tier: Tier) -> u32 {
        tier.pick(600, 6000)
    }
    fn strategy(&self, tier: Tier) -> BoxedStrategy<MaintCase> {
        maint_case(1200, tier.pick(3600, 3 * 3600), false, 6)
    }
    fn watchdog_secs(&self, tier: Tier) -> u64 {
        tier.pick(900, 3600)
    }
    fn run(&self, c: &MaintCase) -> Outcome {
        let tr = run_maint(c, 3000, 0);
        if let Some(t) = tr.dead_at {
            return Outcome::violation("node-dead", format!("load_contacts stopped answering at t={t} ms"));
        }
        let ev = extract(&tr);
        let mut crossed = false;
        let mut dropped = false;
        for (i, _) in c.puppets.iter().enumerate() {
            let addr = tr.puppets[i].1;
            let e = &ev[i];
            for s in &tr.samples {
                let t = s.t;
                let near = |x: u64| t.abs_diff(x + MIN15) < 100;
                if e.answers.iter().any(|x| near(*x)) || e.queries_from.iter().any(|x| near(*x)) {
                    continue; // exact 15-minute coincidences are not asserted
                }
                let last_answer = e.answers.iter().filter(|x| **x <= t).max().copied();
                let first_known = e.answers.iter().chain(e.mentions.iter()).min().copied();
                let recent_answer = last_answer.map(|x| t - x < MIN15).unwrap_or(false);
                // a query from the contact counts only if the contact was known before it
                let recent_query = e.queries_from.iter().any(|q| *q <= t && t - *q < MIN15 && first_known.map(|k| k < *q).unwrap_or(false));
                let is_good = s.good.contains(&addr);
                let present = is_good || s.quest.contains(&addr);
                if is_good && !recent_answer && !recent_query {
                    return Outcome::violation(
                        "reported-good-without-recent-answer-or-query",
                        format!("puppet {i} ({addr}) is reported good at t={t} ms; last accepted answer {last_answer:?}, queries from it {:?}", e.queries_from),
                    );
                }
                if let Some(a) = last_answer {
                    if t - a < MIN15 {
                        crossed |= t - a > 60_000;
                    }
                    // an accepted answer makes it good immediately (sampled within 3.1 s)
                    if t >= a + 2 && t - a <= 3100 && !is_good {
                        return Outcome::violation("answer-did-not-make-good", format!("puppet {i} ({addr}) answered at {a} ms but is not reported good at t={t} ms"));
                    }
                }
                // dropped: not good, and >= 2 consecutive unanswered non-initial-round queries
                // since the last answer / mention, all older than 1.4 s (their answers would have
                // arrived) => must not be reported
                let since = e.answers.iter().chain(e.mentions.iter()).filter(|x| **x <= t).max().copied().unwrap_or(0);
                // a query counts only if the contact was not good (by the model) when it was sent
                let good_at = |q: u64| {
                    e.answers.iter().any(|a| *a <= q && q - *a < MIN15 + 100)
                        || e.queries_from.iter().any(|f| *f <= q && q - *f < MIN15 + 100)
                };
                let counted = e.queries_to.iter().filter(|(q, initial)| !*initial && *q > since && *q + 1400 < t && !good_at(*q)).count();
                if !recent_answer && !recent_query && counted >= 2 {
                    dropped = true;
                    if present {
                        return Outcome::violation(
                            "unresponsive-contact-still-reported",
                            format!("puppet {i} ({addr}) left {counted} consecutive queries unanswered while not good, but is still reported at t={t} ms (last answer {last_answer:?}, last mention/answer at {since} ms)"),
                        );
                    }
                }
            }
        }
        Outcome::pass(crossed && dropped).label(if dropped { "saw-drop" } else { "no-drop" })
    }
    fn rule(&self) -> String {
        "maintenance worlds as in C11 (1..6 contacts, no user searches, contacts may ping the node on a timetable), 20 min..1 h (thorough ..3 h), sampled every 3 virtual seconds; the per-contact event history (accepted answers, queries sent by the node, queries from the contact, mentions) is extracted from the wire log. Oracle: reported good only with an accepted answer or (being known) a query from it in the last 15 min; reported good within 3 s of every accepted answer; not reported at all while it is not good and has left >= 2 consecutive (non-initial-round) queries unanswered since its last answer/mention. Instants within 100 ms of a 15-minute mark are skipped. Non-trivial: a contact observed past one minute after an answer and a contact that was dropped".into()
    }
    fn sample(&self, c: &MaintCase) -> serde_json::Value {
        C11Runs.sample(c)
    }
}

// ---------------------------------------------------------------------------------------------
// C19 wire tier

pub struct C19Wire;

impl Stage for C19Wire {
    type Case = MaintCase;
    fn name(&self) -> &'static str {
        "wire"
    }
    fn cases(&self, tier: Tier) -> u32 {
        tier.pick(400, 5000)
    }
    fn strategy(&self, tier: Tier) -> BoxedStrategy<MaintCase> {
        maint_case_um(300, tier.pick(2400, 3 * 3600), true, 8, false, true)
    }
    fn watchdog_secs(&self, tier: Tier) -> u64 {
        tier.pick(900, 3600)
    }
    fn run(&self, c: &MaintCase) -> Outcome {
        let tr = run_maint(c, 10_000, 0);
        if let Some(t) = tr.dead_at {
            return Outcome::violation("node-dead", format!("load_contacts stopped answering at t={t} ms"));
        }
        let mut seen: HashMap<(SocketAddr, Vec<u8>), u64> = HashMap::new();
        // prefix -> info-hash (searches) or None (find_node / ping activities)
        let mut prefix_use: HashMap<Vec<u8>, Option<Vec<u8>>> = HashMap::new();
        let mut search_prefixes: HashSet<Vec<u8>> = HashSet::new();
        let mut n_queries = 0u64;
        for e in tr.log.iter().filter(|e| e.from == tr.node && matches!(e.kind, EvKind::Send { .. } | EvKind::SendFailed)) {
            let Ok(m) = KMsg::decode(&e.bytes) else { continue };
            let KBody::Query(q) = &m.body else { continue };
            n_queries += 1;
            if m.tid.len() != 8 {
                return Outcome::violation("tid-length", format!("query to {} at {} ms carries a {}-byte transaction id", e.to, e.ms(), m.tid.len()));
            }
            if let Some(prev) = seen.insert((e.to, m.tid.clone()), e.ms()) {
                return Outcome::violation("tid-reused-towards-same-address", format!("transaction id {} sent to {} at {prev} ms and again at {} ms ({})", hex(&m.tid), e.to, e.ms(), q.method()));
            }
            let prefix = m.tid[..5].to_vec();
            let what = match q {
                KQuery::GetPeers { info_hash, .. } | KQuery::Announce { info_hash, .. } => Some(info_hash.clone()),
                _ => None,
            };
            if what.is_some() {
                search_prefixes.insert(prefix.clone());
            }
            match prefix_use.get(&prefix) {
                None => {
                    prefix_use.insert(prefix, what);
                }
                Some(prev) if *prev == what => {}
                Some(prev) => {
                    return Outcome::violation("prefix-shared-between-activities", format!("activity prefix {} is used for {:?} and for {:?}", hex(&prefix), prev.as_ref().map(|h| hex(h)), what.as_ref().map(|h| hex(h))));
                }
            }
        }
        // every search issued needs its own prefix when it sent anything
        let hashes_searched: HashSet<u8> = c.searches.iter().map(|s| s.2).collect();
        let overlapping = c.searches.len() >= 2;
        let _ = hashes_searched;
        Outcome::pass(n_queries > 50 && (overlapping || c.puppets.iter().any(|p| p.silent_from_s.is_some())))
            .label(format!("search-prefixes:{}", search_prefixes.len().min(4)))
    }
    fn rule(&self) -> String {
        "maintenance worlds (1..8 contacts, some going silent so that bootstrap attempts fail and are retried, 0..3 user searches for up to 3 info-hashes; 30 % of the IPv4 cases list the first contact a second time in its IPv4-mapped IPv6 spelling, which the socket refuses to send to), 5..40 min (thorough ..3 h); every query the node hands to the network is inspected. Oracle: 8-byte transaction ids; no transaction id is ever sent twice to the same address; a 5-byte activity prefix used for get_peers/announce_peer of one info-hash is never used for another info-hash or for find_node/ping. Non-trivial: > 50 queries and overlapping searches or a contact that went silent (retries)".into()
    }
    fn sample(&self, c: &MaintCase) -> serde_json::Value {
        C11Runs.sample(c)
    }
}

/// Debug helper: print the status timeline of one puppet and its traffic (not used by checks).
pub fn debug_timeline(case_json: &str, puppet: usize, from_ms: u64, to_ms: u64) {
    let c: MaintCase = serde_json::from_str(case_json).expect("case");
    let tr = run_maint(&c, 2000, 30_000);
    let addr = tr.puppets[puppet].1;
    let mut last = "";
    for s in &tr.samples {
        let st = if s.good.contains(&addr) { "good" } else if s.quest.contains(&addr) { "questionable" } else { "absent" };
        if st != last {
            println!("t={} status {st}", s.t);
            last = st;
        }
    }
    for e in tr.log.iter().filter(|e| (e.from == addr || e.to == addr) && e.ms() >= from_ms && e.ms() <= to_ms) {
        let m = KMsg::decode(&e.bytes).ok();
        let what = match m.as_ref().map(|m| &m.body) {
            Some(KBody::Query(q)) => format!("q:{} {}", q.method(), hex(&m.as_ref().unwrap().tid)),
            Some(KBody::Resp(r)) => format!("r {} nodes={}", hex(&m.as_ref().unwrap().tid), r.nodes.len() + r.nodes6.len()),
            Some(KBody::Error { code, .. }) => format!("e {code}"),
            None => "??".into(),
        };
        println!("  {:>9} {:?} {} -> {} {}", e.ms(), e.kind, e.from, e.to, what);
    }
}
