//! C13 — KRPC wire codec conformance and round trip.

use crate::bcodec::*;
use crate::engine::*;
use btdht::message::{Message, MessageBody, Request, Want};
use proptest::collection::vec;
use proptest::prelude::*;
use serde::{Deserialize, Serialize};
use std::net::{Ipv4Addr, Ipv6Addr, SocketAddr, SocketAddrV4, SocketAddrV6};

/// Convert a decoded btdht message into the independent model through public fields only.
pub fn msg_to_k(m: &Message) -> KMsg {
    fn w(w: &Option<Want>) -> KWant {
        match w {
            None => KWant::Absent,
            Some(Want::V4) => KWant::N4,
            Some(Want::V6) => KWant::N6,
            Some(Want::Both) => KWant::Both,
        }
    }
    let body = match &m.body {
        MessageBody::Request(Request::Ping(p)) => KBody::Query(KQuery::Ping { id: p.id.as_ref().to_vec() }),
        MessageBody::Request(Request::FindNode(f)) => KBody::Query(KQuery::FindNode {
            id: f.id.as_ref().to_vec(),
            target: f.target.as_ref().to_vec(),
            want: w(&f.want),
        }),
        MessageBody::Request(Request::GetPeers(g)) => KBody::Query(KQuery::GetPeers {
            id: g.id.as_ref().to_vec(),
            info_hash: g.info_hash.as_ref().to_vec(),
            want: w(&g.want),
        }),
        MessageBody::Request(Request::AnnouncePeer(a)) => KBody::Query(KQuery::Announce {
            id: a.id.as_ref().to_vec(),
            info_hash: a.info_hash.as_ref().to_vec(),
            port: a.port,
            token: a.token.clone(),
        }),
        MessageBody::Response(r) => {
            let mut k = KResp { id: r.id.as_ref().to_vec(), token: r.token.clone(), values: r.values.clone(), ..Default::default() };
            for n in &r.nodes_v4 {
                let id: [u8; 20] = n.id.into();
                match n.addr {
                    SocketAddr::V4(a) => k.nodes.push((id, a)),
                    SocketAddr::V6(a) => k.nodes6.push((id, a)), // would be a codec error; shows up as mismatch
                }
            }
            for n in &r.nodes_v6 {
                let id: [u8; 20] = n.id.into();
                match n.addr {
                    SocketAddr::V6(a) => k.nodes6.push((id, a)),
                    SocketAddr::V4(a) => k.nodes.push((id, a)),
                }
            }
            KBody::Resp(k)
        }
        MessageBody::Error(e) => KBody::Error { code: e.code as i64, msg: e.message.clone() },
    };
    KMsg { tid: m.transaction_id.clone(), body }
}

// ---------------------------------------------------------------------------------------------
// Generators

pub fn id20() -> impl Strategy<Value = Vec<u8>> {
    prop_oneof![
        6 => vec(any::<u8>(), 20),
        1 => Just(vec![0u8; 20]),
        1 => Just(vec![0xffu8; 20]),
        1 => "[a-z0-9]{20}".prop_map(|s| s.into_bytes()),
    ]
}

fn id_arr() -> impl Strategy<Value = Id> {
    id20().prop_map(|v| {
        let mut a = [0u8; 20];
        a.copy_from_slice(&v);
        a
    })
}

pub fn tid() -> impl Strategy<Value = Vec<u8>> {
    prop_oneof![
        3 => vec(any::<u8>(), 0..=32),
        2 => vec(any::<u8>(), 8),
        1 => vec(any::<u8>(), 2),
        1 => "[a-z0-9:de]{0,32}".prop_map(|s| s.into_bytes()),
    ]
}

pub fn want() -> impl Strategy<Value = KWant> {
    prop_oneof![Just(KWant::Absent), Just(KWant::N4), Just(KWant::N6), Just(KWant::Both)]
}

fn port() -> impl Strategy<Value = u16> {
    prop_oneof![4 => any::<u16>(), 1 => Just(0u16), 1 => Just(65535u16), 1 => Just(1u16), 1 => Just(256u16), 1 => Just(6881u16)]
}

pub fn v4addr() -> impl Strategy<Value = SocketAddrV4> {
    let ip = prop_oneof![
        6 => any::<u32>(),
        1 => Just(0u32),
        1 => Just(u32::MAX),
        1 => Just(0x7f00_0001u32),
        1 => (0u32..65536).prop_map(|x| 0x0a00_0000 | x),
        1 => Just(0xe000_0001u32),
    ];
    (ip, port()).prop_map(|(ip, p)| SocketAddrV4::new(Ipv4Addr::from(ip), p))
}

pub fn v6addr() -> impl Strategy<Value = SocketAddrV6> {
    // random addresses plus the special ranges whose textual/“canonical” forms differ from the
    // generic case: IPv4-mapped (::ffff:a.b.c.d), IPv4-compatible (::a.b.c.d), NAT64, loopback,
    // unspecified, link-local, multicast, documentation, all-ones
    let ip = prop_oneof![
        6 => any::<u128>(),
        2 => any::<u32>().prop_map(|v4| 0xffff_0000_0000u128 | v4 as u128),
        1 => any::<u32>().prop_map(|v4| v4 as u128),
        1 => any::<u32>().prop_map(|v4| (0x0064_ff9bu128 << 96) | v4 as u128),
        1 => Just(1u128),
        1 => Just(0u128),
        1 => any::<u64>().prop_map(|x| (0xfe80u128 << 112) | x as u128),
        1 => any::<u16>().prop_map(|x| (0xff02u128 << 112) | x as u128),
        1 => any::<u64>().prop_map(|x| (0x2001_0db8u128 << 96) | x as u128),
        1 => Just(u128::MAX),
    ];
    (ip, port()).prop_map(|(ip, p)| SocketAddrV6::new(Ipv6Addr::from(ip), p, 0, 0))
}

fn anyaddr() -> impl Strategy<Value = SocketAddr> {
    prop_oneof![v4addr().prop_map(SocketAddr::V4), v6addr().prop_map(SocketAddr::V6)]
}

pub fn token() -> impl Strategy<Value = Vec<u8>> {
    prop_oneof![
        3 => vec(any::<u8>(), 0..=64),
        2 => vec(any::<u8>(), 20),
        1 => Just(vec![]),
        1 => vec(any::<u8>(), 8),
    ]
}

pub fn query() -> impl Strategy<Value = KQuery> {
    prop_oneof![
        id20().prop_map(|id| KQuery::Ping { id }),
        (id20(), id20(), want()).prop_map(|(id, target, want)| KQuery::FindNode { id, target, want }),
        (id20(), id20(), want()).prop_map(|(id, info_hash, want)| KQuery::GetPeers { id, info_hash, want }),
        (id20(), id20(), proptest::option::of(port()), token())
            .prop_map(|(id, info_hash, port, token)| KQuery::Announce { id, info_hash, port, token }),
    ]
}

pub fn resp() -> impl Strategy<Value = KResp> {
    (
        id20(),
        proptest::option::of(token()),
        prop_oneof![2 => Just(vec![]), 3 => vec(anyaddr(), 0..=60)],
        prop_oneof![2 => Just(vec![]), 3 => vec((id_arr(), v4addr()), 0..=50)],
        prop_oneof![2 => Just(vec![]), 3 => vec((id_arr(), v6addr()), 0..=50)],
    )
        .prop_map(|(id, token, values, nodes, nodes6)| KResp { id, token, values, nodes, nodes6 })
}

pub fn kmsg() -> impl Strategy<Value = KMsg> {
    (
        tid(),
        prop_oneof![
            4 => query().prop_map(KBody::Query),
            4 => resp().prop_map(KBody::Resp),
            1 => (0i64..=255, prop_oneof![3 => "\\PC{0,200}", 1 => "[ -~]{0,40}", 1 => Just(String::new())])
                .prop_map(|(code, msg)| KBody::Error { code, msg }),
        ],
    )
        .prop_map(|(tid, body)| KMsg { tid, body })
}

const KNOWN_KEYS: &[&str] = &[
    "t", "y", "q", "a", "r", "e", "id", "target", "info_hash", "want", "port", "implied_port",
    "token", "nodes", "nodes6", "values",
];
const COMMON_UNKNOWN: &[&str] = &["v", "ip", "ro", "noseed", "scrape", "name", "p", "seed", "bs", "age", "nf"];

fn unknown_key() -> impl Strategy<Value = String> {
    prop_oneof![
        3 => (0..COMMON_UNKNOWN.len()).prop_map(|i| COMMON_UNKNOWN[i].to_string()),
        1 => "\\PC{1,12}".prop_filter("must not be a BEP5/32 key", |s| !KNOWN_KEYS.contains(&s.as_str())),
        1 => "[a-z_0-9]{1,14}".prop_filter("must not be a BEP5/32 key", |s| !KNOWN_KEYS.contains(&s.as_str())),
    ]
}

pub fn btree(depth: u32) -> BoxedStrategy<B> {
    let leaf = prop_oneof![
        any::<i64>().prop_map(B::Int),
        vec(any::<u8>(), 0..24).prop_map(B::Bytes),
        "[a-z]{0,8}".prop_map(|s| B::Bytes(s.into_bytes())),
    ];
    leaf.prop_recursive(depth, 24, 4, |inner| {
        prop_oneof![
            vec(inner.clone(), 0..4).prop_map(B::List),
            vec(("[a-z]{1,6}", inner), 0..4).prop_map(|kv| {
                let mut kv: Vec<(Vec<u8>, B)> = kv.into_iter().map(|(k, v)| (k.into_bytes(), v)).collect();
                kv.sort_by(|a, b| a.0.cmp(&b.0));
                kv.dedup_by(|a, b| a.0 == b.0);
                B::Dict(kv)
            }),
        ]
    })
    .boxed()
}

#[derive(Clone, Debug, Serialize, Deserialize)]
pub struct Unknown {
    /// 0 = top level, 1 = inside the a / r dictionary
    level: u8,
    key: String,
    value: B,
}

#[derive(Clone, Debug, Serialize, Deserialize)]
pub enum Neg {
    /// name another method whose required keys the arguments lack
    Method(u8),
    /// set the id at position k (id / target|info_hash / r.id) to this length
    IdLen { pos: u8, len: u8 },
    NodesLen { v6: bool, extra: u8 },
    ValueLen { index: u16, len: u8 },
}

#[derive(Clone, Debug, Serialize, Deserialize)]
pub struct Case {
    msg: KMsg,
    perm_seed: u64,
    unknown: Vec<Unknown>,
    swap_want: bool,
    neg: Option<Neg>,
}

fn permute(b: &B, seed: &mut u64) -> B {
    match b {
        B::List(l) => B::List(l.iter().map(|x| permute(x, seed)).collect()),
        B::Dict(kv) => {
            let mut kv: Vec<(Vec<u8>, B)> = kv.iter().map(|(k, v)| (k.clone(), permute(v, seed))).collect();
            for i in (1..kv.len()).rev() {
                *seed = splitmix(*seed);
                let j = (*seed % (i as u64 + 1)) as usize;
                kv.swap(i, j);
            }
            B::Dict(kv)
        }
        x => x.clone(),
    }
}

fn insert_unknown(b: &mut B, u: &Unknown) -> bool {
    let target: Option<&mut B> = if u.level == 0 {
        Some(b)
    } else if b.get("a").is_some() {
        b.get_mut("a")
    } else if b.get("r").is_some() {
        b.get_mut("r")
    } else {
        Some(b)
    };
    if let Some(B::Dict(kv)) = target {
        if kv.iter().any(|(k, _)| k == u.key.as_bytes()) {
            return false;
        }
        kv.push((u.key.as_bytes().to_vec(), u.value.clone()));
        kv.sort_by(|a, b| a.0.cmp(&b.0));
        true
    } else {
        false
    }
}

fn required(method: &str) -> &'static [&'static str] {
    match method {
        "ping" => &["id"],
        "find_node" => &["id", "target"],
        "get_peers" => &["id", "info_hash"],
        _ => &["id", "info_hash", "port", "token"],
    }
}

/// Build the negative variant's tree; None if the class does not apply to this message.
fn negative(m: &KMsg, neg: &Neg) -> Option<(B, String)> {
    let mut b = m.to_b();
    match neg {
        Neg::Method(k) => {
            let q = match &m.body {
                KBody::Query(q) => q,
                _ => return None,
            };
            let methods = ["ping", "find_node", "get_peers", "announce_peer"];
            let other = methods[*k as usize % 4];
            if other == q.method() {
                return None;
            }
            // the named method must require a key the arguments do not have
            let have = required(q.method());
            if !required(other).iter().any(|r| !have.contains(r)) {
                return None;
            }
            *b.get_mut("q")? = B::str(other);
            Some((b, format!("method {other} with the arguments of {}", q.method())))
        }
        Neg::IdLen { pos, len } => {
            if *len == 20 {
                return None;
            }
            let (dict, keys): (&str, Vec<&str>) = match &m.body {
                KBody::Query(KQuery::Ping { .. }) => ("a", vec!["id"]),
                KBody::Query(KQuery::FindNode { .. }) => ("a", vec!["id", "target"]),
                KBody::Query(_) => ("a", vec!["id", "info_hash"]),
                KBody::Resp(_) => ("r", vec!["id"]),
                KBody::Error { .. } => return None,
            };
            let key = keys[*pos as usize % keys.len()];
            let slot = b.get_mut(dict)?.get_mut(key)?;
            let old = slot.as_bytes()?.to_vec();
            let mut new = old.clone();
            new.resize(*len as usize, 0x41);
            *slot = B::Bytes(new);
            Some((b, format!("{dict}.{key} of length {len}")))
        }
        Neg::NodesLen { v6, extra } => {
            let (key, unit) = if *v6 { ("nodes6", 38usize) } else { ("nodes", 26usize) };
            let extra = 1 + (*extra as usize % (unit - 1));
            let slot = b.get_mut("r")?.get_mut(key)?;
            let mut v = slot.as_bytes()?.to_vec();
            v.extend(std::iter::repeat(7u8).take(extra));
            let n = v.len();
            *slot = B::Bytes(v);
            Some((b, format!("{key} of length {n}")))
        }
        Neg::ValueLen { index, len } => {
            if *len == 6 || *len == 18 {
                return None;
            }
            let slot = b.get_mut("r")?.get_mut("values")?;
            if let B::List(l) = slot {
                if l.is_empty() {
                    return None;
                }
                let i = idx(*index, l.len());
                l[i] = B::Bytes(vec![9u8; *len as usize]);
                Some((b, format!("values[{i}] of length {len}")))
            } else {
                None
            }
        }
    }
}

pub struct Codec;

impl Stage for Codec {
    type Case = Case;
    fn name(&self) -> &'static str {
        "codec"
    }
    fn cases(&self, tier: Tier) -> u32 {
        tier.pick(60_000, 1_500_000)
    }
    fn strategy(&self, _t: Tier) -> BoxedStrategy<Case> {
        let unk = (0u8..2, unknown_key(), btree(6)).prop_map(|(level, key, value)| Unknown { level, key, value });
        let neg = prop_oneof![
            (0u8..4).prop_map(Neg::Method),
            (0u8..4, prop_oneof![0u8..20, 21u8..=40, Just(0u8), Just(19u8), Just(21u8)]).prop_map(|(pos, len)| Neg::IdLen { pos, len }),
            (any::<bool>(), any::<u8>()).prop_map(|(v6, extra)| Neg::NodesLen { v6, extra }),
            (any::<u16>(), 0u8..=24).prop_map(|(index, len)| Neg::ValueLen { index, len }),
        ];
        (kmsg(), any::<u64>(), vec(unk, 0..4), any::<bool>(), proptest::option::weighted(0.4, neg))
            .prop_map(|(msg, perm_seed, unknown, swap_want, neg)| Case { msg, perm_seed, unknown, swap_want, neg })
            .boxed()
    }
    fn run(&self, c: &Case) -> Outcome {
        let canon_tree = c.msg.to_b();
        let canon = canon_tree.encode();
        // (1) decoder maps the canonical encoding back to the same message
        let dec = match Message::decode(&canon) {
            Ok(m) => m,
            Err(e) => return Outcome::violation("canonical-rejected", format!("decode failed ({e}) for {}", show(&canon))),
        };
        let back = msg_to_k(&dec);
        if back != c.msg {
            return Outcome::violation("decode-mismatch", format!("decoded {back:?} from {}", show(&canon)));
        }
        // (2) encoder emits exactly the canonical bencoding
        match dec.encode() {
            Ok(e) if e == canon => {}
            Ok(e) => return Outcome::violation("encode-not-canonical", format!("encoder gave {} expected {}", show(&e), show(&canon))),
            Err(e) => return Outcome::violation("encode-failed", format!("{e} for {:?}", c.msg)),
        }
        // (3) permuted keys / unknown keys / swapped want decode to the same message
        let mut tree = canon_tree.clone();
        let mut inserted = 0;
        let mut nested_unknown = false;
        for u in &c.unknown {
            if insert_unknown(&mut tree, u) {
                inserted += 1;
                if u.level == 1 && !matches!(c.msg.body, KBody::Error { .. }) {
                    nested_unknown = true;
                }
            }
        }
        if c.swap_want {
            if let Some(B::List(l)) = tree.get_mut("a").and_then(|a| a.get_mut("want")) {
                l.reverse();
            }
        }
        let mut seed = c.perm_seed;
        let variant = permute(&tree, &mut seed).encode();
        let permuted = variant != tree.encode();
        match Message::decode(&variant) {
            Ok(m) if m == dec => {}
            Ok(m) => return Outcome::violation("variant-differs", format!("variant {} decoded to {:?}, canonical to {:?}", show(&variant), msg_to_k(&m), back)),
            Err(e) => return Outcome::violation("variant-rejected", format!("decode failed ({e}) for variant {}", show(&variant))),
        }
        // (4) negative classes are rejected
        let mut neg_label = None;
        if let Some(n) = &c.neg {
            if let Some((b, what)) = negative(&c.msg, n) {
                let bytes = b.encode();
                if let Ok(m) = Message::decode(&bytes) {
                    let kind = match n {
                        Neg::Method(_) => "accepted-method-mismatch",
                        Neg::IdLen { .. } => "accepted-bad-id-length",
                        Neg::NodesLen { .. } => "accepted-bad-nodes-length",
                        Neg::ValueLen { .. } => "accepted-bad-value-length",
                    };
                    return Outcome::violation(kind, format!("{what}: {} decoded to {:?}", show(&bytes), msg_to_k(&m)));
                }
                neg_label = Some(match n {
                    Neg::Method(_) => "neg:method",
                    Neg::IdLen { .. } => "neg:id-length",
                    Neg::NodesLen { .. } => "neg:nodes-length",
                    Neg::ValueLen { .. } => "neg:value-length",
                });
            }
        }
        let optional_parts = match &c.msg.body {
            KBody::Resp(r) => {
                r.token.is_some() as u32 + !r.values.is_empty() as u32 + !r.nodes.is_empty() as u32 + !r.nodes6.is_empty() as u32
            }
            KBody::Query(KQuery::FindNode { want, .. }) | KBody::Query(KQuery::GetPeers { want, .. }) => (*want != KWant::Absent) as u32,
            _ => 0,
        };
        let nt = optional_parts >= 2 || (permuted && nested_unknown) || neg_label.is_some();
        let mut o = Outcome::pass(nt).label(match &c.msg.body {
            KBody::Query(q) => format!("msg:{}", q.method()),
            KBody::Resp(_) => "msg:response".into(),
            KBody::Error { .. } => "msg:error".into(),
        });
        if inserted > 0 {
            o = o.label("variant:unknown-keys");
        }
        if permuted {
            o = o.label("variant:permuted");
        }
        if let Some(l) = neg_label {
            o = o.label(l);
        }
        o
    }
    fn rule(&self) -> String {
        "KRPC messages over the whole field space (tid 0..32 B, any ids, queries with want/port/token variants, responses with token/values(v4+v6 mixed)/nodes/nodes6, errors 0..255 with UTF-8 text); per message: canonical encoding from the independent codec, a key-permuted + unknown-key (UTF-8 names outside BEP5/32, values = random bencode trees depth<=6) variant, and optionally one negative variant (method lacking required keys, id length != 20, nodes/nodes6 length not a multiple of 26/38, values entry of length not 6/18). Non-trivial: >=2 optional parts present, or permutation + unknown key inside a/r, or an applicable negative variant. distinct = distinct serialised cases".into()
    }
    fn sample(&self, c: &Case) -> serde_json::Value {
        serde_json::json!({"canonical": show(&c.msg.encode()), "unknown_keys": c.unknown.iter().map(|u| u.key.clone()).collect::<Vec<_>>(), "neg": format!("{:?}", c.neg)})
    }
}

pub fn show(b: &[u8]) -> String {
    let mut s = String::new();
    for &c in b.iter().take(400) {
        if (0x20..0x7f).contains(&c) && c != b'\\' {
            s.push(c as char);
        } else {
            s.push_str(&format!("\\x{c:02x}"));
        }
    }
    if b.len() > 400 {
        s.push_str(&format!("...({} bytes)", b.len()));
    }
    s
}

pub fn spec() -> PropertySpec {
    PropertySpec {
        id: "C13",
        stages: vec![Box::new(Codec), Box::new(Bytes)],
        assumptions: vec![
            "Canonical form is produced by the harness's own codec (bcodec: sorted keys, compact 6/18-byte peers, 26/38-byte nodes, big-endian ports, implied_port=1 with port=0, empty lists omitted); bcodec is self-checked against BEP5's examples at start-up.".into(),
            "Unknown keys are textual (UTF-8) names outside the BEP5/32 key set, as in the property's examples.".into(),
            "Method/argument mismatch is asserted only when the arguments lack a key the named method requires.".into(),
        ],
        explanation: "Oracles: decode(canon) equals the model; decode(canon).encode() equals canon byte for byte; decode(variant) == decode(canon); negative classes are rejected. The libFuzzer roundtrip target adds byte-level search (see fuzz stage in coverage.stages when run).".into(),
    }
}

// ---------------------------------------------------------------------------------------------
// Byte-level round trip: any byte string the decoder accepts re-encodes canonically

/// Semantic oracle on raw bytes (shared with the libFuzzer `roundtrip` target).
/// Err((kind, detail)) on a violation.
pub fn check_bytes(data: &[u8]) -> Result<bool, (String, String)> {
    let m = match Message::decode(data) {
        Ok(m) => m,
        Err(_) => return Ok(false),
    };
    let k = msg_to_k(&m);
    let enc = match m.encode() {
        Ok(e) => e,
        Err(e) => return Err(("accepted-message-does-not-encode".into(), format!("{e}: {} decoded to {k:?}", show(data)))),
    };
    let canon = k.encode();
    if enc != canon {
        return Err(("encode-not-canonical".into(), format!("accepted input {} re-encodes to {} but the canonical encoding of the decoded message is {}", show(data), show(&enc), show(&canon))));
    }
    match Message::decode(&enc) {
        Ok(m2) if m2 == m => {}
        Ok(m2) => return Err(("re-decode-differs".into(), format!("{} -> {:?} -> re-encoded -> {:?}", show(data), k, msg_to_k(&m2)))),
        Err(e) => return Err(("re-encoding-rejected".into(), format!("{e}: {}", show(&enc)))),
    }
    Ok(true)
}

pub struct Bytes;

impl Stage for Bytes {
    type Case = super::c14::Input;
    fn name(&self) -> &'static str {
        "bytes-roundtrip"
    }
    fn cases(&self, tier: Tier) -> u32 {
        tier.pick(40_000, 1_000_000)
    }
    fn strategy(&self, _t: Tier) -> BoxedStrategy<Self::Case> {
        super::c14::input().boxed()
    }
    fn run(&self, c: &Self::Case) -> Outcome {
        let bytes = super::c14::build(c);
        match check_bytes(&bytes) {
            Ok(accepted) => Outcome::pass(accepted && !c.muts.is_empty()).label(if accepted { "accepted" } else { "rejected" }),
            Err((k, d)) => Outcome::violation(k, d),
        }
    }
    fn rule(&self) -> String {
        "byte strings from the C14 mutation generator (valid messages with 0..8 structure-aware mutations); oracle: whatever the decoder accepts re-encodes to the canonical encoding (independent codec) of the decoded message, and decodes again to the same message. Non-trivial: mutated and still accepted".into()
    }
    fn sample(&self, c: &Self::Case) -> serde_json::Value {
        let b = super::c14::build(c);
        serde_json::json!({"len": b.len(), "bytes": show(&b[..b.len().min(160)])})
    }
}
