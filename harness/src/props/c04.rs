//! C04 — every search ends, neither early nor never.

use super::searchworld::*;
use super::single::fam_addr;
use crate::bcodec::*;
use crate::engine::*;
use crate::sim::*;
use crate::world::*;
use btdht::InfoHash;
use futures_util::StreamExt;
use proptest::collection::vec;
use proptest::prelude::*;
use serde::{Deserialize, Serialize};
use std::collections::{HashMap, HashSet};
use std::net::SocketAddr;
use std::sync::{Arc, Mutex};
use std::time::Duration;

#[derive(Clone, Debug, Serialize, Deserialize)]
pub enum Beh {
    Silent,
    /// answer get_peers after `delay_ms`, naming `names` fresh closer nodes (a chain continues
    /// `depth` more levels)
    Answer {
        delay_ms: u16,
        names: u8,
        depth: u8,
        /// additionally name the (already asked) contacts
        #[serde(default)]
        also_known: bool,
    },
    Error { delay_ms: u16 },
    /// answer twice
    Duplicate { delay_ms: u16, second_ms: u16 },
}

#[derive(Clone, Debug, Serialize, Deserialize)]
pub struct Case {
    v6: bool,
    contacts: Vec<Beh>,
    /// behaviour of chain nodes by depth parity etc. (cycled)
    chain: Vec<Beh>,
    /// per-mille of the search's get_peers/announce datagrams whose send fails
    send_fail_permille: u16,
    fail_seed: u64,
    announce: bool,
    /// 0 = normal; 1 = search on a node whose runtime has shut down
    degenerate: u8,
    /// the search starts this long after bootstrapped() (so that it can overlap the 6 s refresh
    /// tick or a re-bootstrap)
    #[serde(default)]
    start_offset_ms: u16,
    rt_seed: u64,
}

pub struct Ends;

const H: Id = [0x04; 20];
const EPS: u64 = 100;

fn beh() -> impl Strategy<Value = Beh> {
    let delay = prop_oneof![3 => 0u16..400, 2 => 400u16..1480, 3 => 1480u16..1520, 2 => 1520u16..3000, 1 => Just(1499u16), 1 => Just(1500u16), 1 => Just(1501u16)];
    prop_oneof![
        2 => Just(Beh::Silent),
        5 => (delay.clone(), 0u8..=3, 0u8..=25, prop::bool::weighted(0.3)).prop_map(|(delay_ms, names, depth, also_known)| Beh::Answer { delay_ms, names, depth, also_known }),
        1 => delay.clone().prop_map(|delay_ms| Beh::Error { delay_ms }),
        1 => (delay.clone(), 0u16..2000).prop_map(|(delay_ms, second_ms)| Beh::Duplicate { delay_ms, second_ms }),
    ]
}

/// marker value unique per responding address
fn marker(a: &SocketAddr) -> SocketAddr {
    SocketAddr::new(a.ip(), a.port().wrapping_add(10_000))
}

impl Stage for Ends {
    type Case = Case;
    fn name(&self) -> &'static str {
        "termination"
    }
    fn cases(&self, tier: Tier) -> u32 {
        tier.pick(20000, 800000)
    }
    fn strategy(&self, _t: Tier) -> BoxedStrategy<Case> {
        (
            any::<bool>(),
            prop_oneof![4 => vec(beh(), 0..=8), 1 => vec(beh(), 10..=14)],
            vec(beh(), 1..5),
            prop_oneof![4 => Just(0u16), 1 => 1u16..400, 1 => Just(1000u16)],
            any::<u64>(),
            any::<bool>(),
            prop_oneof![12 => Just(0u8), 1 => Just(1u8)],
            any::<u64>(),
            prop_oneof![2 => Just(0u16), 3 => 0u16..13_000],
        )
            .prop_map(|(v6, contacts, chain, send_fail_permille, fail_seed, announce, degenerate, rt_seed, start_offset_ms)| Case { v6, contacts, chain, send_fail_permille, fail_seed, announce, degenerate, start_offset_ms, rt_seed })
            .boxed()
    }
    fn run(&self, c: &Case) -> Outcome {
        if c.degenerate == 1 {
            // a node whose runtime is gone while a handle survives
            let rt_b = paused_rt(7);
            let dht = rt_b.block_on(async {
                let net = SimNet::new(Box::new(Instant0));
                start_node(&net, &NodeCfg { addr: fam_addr(c.v6, 1, 6881), id: [9; 20], read_only: false, nodes: vec![], routers: vec![], announce_port: None })
            });
            drop(rt_b);
            let rt = paused_rt(c.rt_seed);
            return rt.block_on(async {
                let t = tokio::time::Instant::now();
                let mut s = dht.search(InfoHash::from(H), c.announce);
                match within(Duration::from_secs(60), s.next()).await {
                    Some(None) if t.elapsed() <= Duration::from_millis(1) => Outcome::pass(true).label("dead-node"),
                    Some(None) => Outcome::violation("dead-node-search-closes-late", format!("closed after {:?}", t.elapsed())),
                    Some(Some(a)) => Outcome::violation("dead-node-search-yields", format!("yielded {a}")),
                    None => Outcome::violation("search-never-ends/dead-node", "search on a node that has shut down is still open after 60 s"),
                }
            });
        }
        let rt = paused_rt(c.rt_seed);
        rt.block_on(async {
            let node = fam_addr(c.v6, 1, 6881);
            let node_id: Id = [0xE4; 20];
            // send failures for the search's own datagrams
            let permille = c.send_fail_permille as u64;
            let fseed = c.fail_seed;
            let failed = Arc::new(Mutex::new(0u32));
            let f2 = failed.clone();
            let net = SimNet::new(Box::new(move |d: &Dgram| {
                if permille > 0 && d.from == node {
                    if let Ok(KMsg { body: KBody::Query(KQuery::GetPeers { .. } | KQuery::Announce { .. }), .. }) = KMsg::decode(d.bytes) {
                        let ip = match d.to.ip() {
                            std::net::IpAddr::V4(a) => u32::from(a) as u64,
                            std::net::IpAddr::V6(a) => u128::from(a) as u64,
                        };
                        let h = splitmix(splitmix(fseed ^ ip) ^ (d.seq as u64) << 16 ^ d.to.port() as u64);
                        if h % 1000 < permille {
                            *f2.lock().unwrap() += 1;
                            return Fate::SendError;
                        }
                    }
                }
                Fate::Deliver(vec![Duration::ZERO])
            }));
            // endpoints: contacts + chain nodes. Chain node addresses are derived from (parent, k).
            let contacts: Vec<(Id, SocketAddr)> = (0..c.contacts.len()).map(|i| (clustered_id(&H, 2 + i, 40 + i as u64), fam_addr(c.v6, 100 + i as u16, 7000))).collect();
            // pre-compute the chain tree breadth-first (bounded)
            #[derive(Clone)]
            struct EP {
                id: Id,
                addr: SocketAddr,
                beh: Beh,
                children: Vec<usize>,
            }
            let mut eps: Vec<EP> = contacts.iter().zip(&c.contacts).map(|((id, a), b)| EP { id: *id, addr: *a, beh: b.clone(), children: vec![] }).collect();
            let mut frontier: Vec<(usize, usize)> = (0..eps.len()).map(|i| (i, 0usize)).collect(); // (endpoint, level)
            let mut next_addr = 0u16;
            while let Some((i, level)) = frontier.pop() {
                let (names, depth) = match &eps[i].beh {
                    Beh::Answer { names, depth, .. } => (*names as usize, *depth as usize),
                    _ => (0, 0),
                };
                if names == 0 || depth == 0 || eps.len() > 120 {
                    continue;
                }
                for k in 0..names {
                    let shared = crate::props::table_common::lcp(&eps[i].id, &H);
                    let id = clustered_id(&H, (shared + 1 + k).min(158), 7000 + next_addr as u64);
                    let mut b = c.chain[(level + k) % c.chain.len()].clone();
                    if let Beh::Answer { depth: d, .. } = &mut b {
                        *d = (depth - 1) as u8; // chains shrink
                    }
                    let child = EP { id, addr: fam_addr(c.v6, 1000 + next_addr, 7100), beh: b, children: vec![] };
                    next_addr += 1;
                    eps.push(child);
                    let ci = eps.len() - 1;
                    eps[i].children.push(ci);
                    frontier.push((ci, level + 1));
                }
            }
            let max_chain = {
                fn depth_of(eps: &[EP], i: usize) -> usize {
                    1 + eps[i].children.iter().map(|c| depth_of(eps, *c)).max().unwrap_or(0)
                }
                (0..contacts.len()).map(|i| depth_of(&eps, i)).max().unwrap_or(0)
            };
            let n_contacts = contacts.len();
            let all = Arc::new(eps);
            for i in 0..all.len() {
                let all2 = all.clone();
                spawn_puppet(&net, all[i].addr, move |_raw, msg, from, _now| {
                    let Some(m) = msg else { return vec![] };
                    let KBody::Query(q) = &m.body else { return vec![] };
                    let me = &all2[i];
                    let plain = resp(&m.tid, KResp { id: me.id.to_vec(), ..Default::default() });
                    match q {
                        // bootstrap / refresh traffic is always answered at once: contacts become good
                        KQuery::Ping { .. } | KQuery::FindNode { .. } | KQuery::Announce { .. } => vec![Out::now(from, &plain)],
                        KQuery::GetPeers { .. } => {
                            let mut named: Vec<(Id, SocketAddr)> = me.children.iter().map(|c| (all2[*c].id, all2[*c].addr)).collect();
                            if matches!(me.beh, Beh::Answer { also_known: true, .. }) {
                                // the contacts (all asked in the first rounds), without this node itself
                                named.extend(all2.iter().take(n_contacts).filter(|e| e.addr != me.addr).map(|e| (e.id, e.addr)));
                            }
                            let (nodes, nodes6) = node_lists(&named);
                            let answer = resp(&m.tid, KResp { id: me.id.to_vec(), token: Some(vec![i as u8, 1, 2]), values: vec![marker(&me.addr)], nodes, nodes6 });
                            match &me.beh {
                                Beh::Silent => vec![],
                                Beh::Answer { delay_ms, .. } => vec![Out::after(*delay_ms as u64, from, &answer)],
                                Beh::Error { delay_ms } => vec![Out::after(*delay_ms as u64, from, &KMsg { tid: m.tid.clone(), body: KBody::Error { code: 201, msg: "no".into() } })],
                                Beh::Duplicate { delay_ms, second_ms } => vec![Out::after(*delay_ms as u64, from, &answer), Out::after(*delay_ms as u64 + *second_ms as u64, from, &answer)],
                            }
                        }
                    }
                });
            }
            let dht = start_node(&net, &NodeCfg { addr: node, id: node_id, read_only: false, nodes: contacts.iter().map(|c| c.1).collect(), routers: vec![], announce_port: None });
            if within(Duration::from_secs(120), dht.bootstrapped()).await != Some(true) {
                return Outcome::violation("setup-not-bootstrapped", "node did not bootstrap");
            }
            net.settle().await;
            tokio::time::sleep(Duration::from_millis(c.start_offset_ms as u64)).await;
            let t_search = net.now_ms();
            let mut stream = dht.search(InfoHash::from(H), c.announce);
            let mut yielded: Vec<SocketAddr> = vec![];
            let limit = 1500 * (all.len() as u64 + 2) + 10_000;
            let done = within(Duration::from_millis(limit), async {
                while let Some(a) = stream.next().await {
                    yielded.push(a);
                }
            })
            .await;
            let t_close = net.now_ms();
            if done.is_none() {
                return Outcome::violation("search-never-ends", format!("stream still open {limit} ms after the search started ({} endpoints)", all.len()));
            }
            tokio::time::sleep(Duration::from_millis(50)).await;
            let log = net.log();
            let failed_sends = *failed.lock().unwrap();
            let obs = observe_searches(&log, node, &H);
            if std::env::var_os("VERIF_DEBUG").is_some() {
                eprintln!("t_search={t_search} t_close={t_close} failed_sends={failed_sends} searches={}", obs.len());
                for e in log.iter().filter(|e| e.from == node && e.ms() >= t_search) {
                    eprintln!("  {} {:?} -> {} {}", e.ms(), e.kind, e.to, KMsg::decode(&e.bytes).map(|m| format!("{:?}", m.body).chars().take(40).collect::<String>()).unwrap_or_default());
                }
            }
            let o = obs.iter().find(|o| o.get_peers.iter().any(|g| g.0 >= t_search));
            let Some(o) = o else {
                // nothing was sent: only legitimate without a good node
                if !contacts.is_empty() {
                    return Outcome::violation("search-sent-nothing", format!("search closed after {} ms without sending a query although {} good nodes are known", t_close - t_search, contacts.len()));
                }
                if t_close - t_search > 1 {
                    return Outcome::violation("no-good-node-search-closes-late", format!("closed after {} ms", t_close - t_search));
                }
                return Outcome::pass(true).label("no-good-node");
            };
            let t0 = o.get_peers.iter().map(|g| g.0).min().unwrap();
            // distinct nodes the search was told about
            let mut told: HashSet<SocketAddr> = o.get_peers.iter().map(|g| g.1).collect();
            for r in &o.responses {
                told.extend(r.3.nodes.iter().map(|n| SocketAddr::V4(n.1)));
                told.extend(r.3.nodes6.iter().map(|n| SocketAddr::V6(n.1)));
            }
            let d = told.len() as u64;
            if t_close > t0 + 1500 * d + 3000 + EPS {
                return Outcome::violation("search-closes-too-late", format!("closed {} ms after its first query; bound 1.5 s x {d} nodes + 3 s", t_close - t0));
            }
            if o.responses.is_empty() && failed_sends == 0 {
                if t_close + EPS < t0 + 3000 || t_close > t0 + 3000 + EPS {
                    return Outcome::violation("unanswered-search-wrong-duration", format!("nobody answered; closed {} ms after the first query (expected about 3000)", t_close - t0));
                }
            }
            // first delivered answer per transaction id
            let mut first_answer: HashMap<Vec<u8>, (u64, &KResp)> = HashMap::new();
            for r in &o.responses {
                first_answer.entry(r.2.clone()).or_insert((r.0, &r.3));
            }
            let mut saw_timeout = false;
            let mut saw_answer = false;
            let mut near_deadline = false;
            if failed_sends == 0 {
                let yielded_set: HashSet<SocketAddr> = yielded.iter().copied().collect();
                for (t, to, tid) in &o.get_peers {
                    match first_answer.get(tid) {
                        Some((ta, r)) if *ta <= t_close => {
                            let rtt = ta - t;
                            if rtt.abs_diff(1500) <= 10 {
                                near_deadline = true;
                            }
                            if rtt + EPS < 1500 {
                                saw_answer = true;
                                if let Some(v) = r.values.iter().find(|v| !yielded_set.contains(v)) {
                                    return Outcome::violation("timely-answer-missed", format!("answer from {to} arrived {rtt} ms after its query (at {ta} ms, search closed at {t_close} ms) but its value {v} was not yielded"));
                                }
                            } else {
                                saw_timeout = true;
                            }
                        }
                        _ => {
                            saw_timeout = true;
                            // unanswered at close: must be at least 1.5 s old
                            if t_close < t + 1500 - EPS {
                                return Outcome::violation("search-closes-too-early", format!("closed at {t_close} ms while its query to {to} sent at {t} ms was only {} ms old and unanswered", t_close - t));
                            }
                        }
                    }
                }
            }
            if let Some(g) = o.get_peers.iter().find(|g| g.0 > t_close + 2) {
                return Outcome::violation("query-after-close", format!("get_peers to {} sent {} ms after the stream closed", g.1, g.0 - t_close));
            }
            Outcome::pass((saw_timeout && saw_answer) || near_deadline || max_chain >= 3)
                .label(if failed_sends > 0 { "send-failures" } else { "no-send-failures" })
                .label(format!("chain:{}", max_chain.min(9)))
        })
    }
    fn rule(&self) -> String {
        "one real node bootstrapped against 0..8 (20 %: 10..14, so that no re-bootstrap happens and the 6 s refresh tick fires) scripted contacts, then, 0..13 s later, a search; each contact and each node it names behaves per script for get_peers: silent, answer after 0..3 s (clustered around 1.5 s: 1480..1520, exactly 1499/1500/1501 ms), KRPC error, duplicate answers; answers name 0..3 fresh ever closer nodes in chains up to 25 deep and, in 30 % of the cases, the already asked contacts as well (<= ~120 endpoints); optionally 0.1..40 % (or all) of the search's own datagrams fail to send; plus the degenerate cases: no good node, and a node whose runtime has been dropped. Oracle (virtual time, eps = 100 ms): close <= first query + 1.5 s x distinct nodes told about + 3 s; nobody answers => close at first query + 3 s; no good node / dead node => closes at once, nothing sent; without send failures: no unanswered query younger than 1.5 s at close, and every first answer arriving < 1.4 s after its query has its values in the stream. Non-trivial: a timeout and an accepted answer in one search, or an answer within 10 ms of the deadline, or a chain >= 3".into()
    }
    fn sample(&self, c: &Case) -> serde_json::Value {
        serde_json::json!({"contacts": c.contacts.iter().map(|b| format!("{b:?}")).collect::<Vec<_>>(), "chain": c.chain.iter().map(|b| format!("{b:?}")).collect::<Vec<_>>(), "send_fail_permille": c.send_fail_permille, "degenerate": c.degenerate})
    }
}

pub fn spec() -> PropertySpec {
    PropertySpec {
        id: "C04",
        stages: vec![Box::new(Ends)],
        assumptions: vec![
            "Searches are issued on a node whose initial bootstrap has completed (searches issued earlier are C16's subject and legitimately wait).".into(),
            "Tolerance eps = 100 virtual ms on every deadline; the number of distinct nodes the search was told about is over-approximated by destinations plus all names in delivered answers (only weakens the upper bound).".into(),
        ],
        explanation: "Oracle: virtual-time bounds on the instant the search stream returns None, both directions, from the wire log and the stream.".into(),
    }
}
