//! C12 — the routing table cannot be filled by parties the node did not ask.

use super::single::fam_addr;
use crate::bcodec::*;
use crate::engine::*;
use crate::sim::*;
use crate::world::*;
use btdht::InfoHash;
use futures_util::StreamExt;
use proptest::collection::vec;
use proptest::prelude::*;
use serde::{Deserialize, Serialize};
use std::collections::HashSet;
use std::net::SocketAddr;
use std::sync::{Arc, Mutex};
use std::time::Duration;

#[derive(Clone, Debug, Serialize, Deserialize)]
pub enum TidClass {
    /// 0..7 random bytes
    Short(#[serde(with = "hexser")] Vec<u8>),
    /// 9..32 random bytes
    Long(#[serde(with = "hexser")] Vec<u8>),
    /// 8 bytes whose action id is >= 2^20 (never allocated in a short run)
    ForeignAction(u64),
    /// the transaction id of the k-th most recent query the node sent, plus extra bytes
    RealPlusExtra { k: u8, #[serde(with = "hexser")] extra: Vec<u8> },
    /// the first n (< 8) bytes of such a transaction id
    RealTruncated { k: u8, n: u8 },
    /// such a transaction id with one of its two leading bytes changed (an action id >= 2^24:
    /// same message id, same low action bytes, but an action prefix the node never used)
    RealPrefixFlipped { k: u8, byte: bool, mask: u8 },
}

#[derive(Clone, Debug, Serialize, Deserialize)]
pub enum Inj {
    /// query of kind 0..3 (ping, find_node, get_peers, announce) from a fresh stranger
    Query { at_ms: u32, kind: u8 },
    /// response with a transaction id not derived from a request the node sent
    Resp { at_ms: u32, tid: TidClass, from_contact: bool },
    /// query from one of the silent addresses that answering parties name (hearsay contacts,
    /// possibly dropped already), carrying that node's id
    QueryFromNamed { at_ms: u32, k: u16, kind: u8 },
}

#[derive(Clone, Debug, Serialize, Deserialize)]
pub struct Case {
    v6: bool,
    read_only: bool,
    /// answering contacts / silent contacts / routers (answering) / routers (silent)
    live: u8,
    silent: u8,
    routers_live: u8,
    routers_silent: u8,
    /// fresh (silent) addresses named by each answering contact in its node lists
    names: u16,
    hostile_lists: bool,
    /// start a search at this time (ms), if any
    search_at: Option<u32>,
    injections: Vec<Inj>,
    rt_seed: u64,
    /// final phase: every answering party falls silent; this many ms after the last contact has
    /// turned questionable (15 min after its last answer) a search is started, and then a
    /// response is injected for each of the 2048 action prefixes of the first allocation block
    /// that never appeared on the wire
    #[serde(default)]
    aged_sweep: Option<u16>,
}

pub struct Unasked;

fn rid(seed: u64) -> Id {
    let mut id = [0u8; 20];
    let mut x = seed;
    for b in id.iter_mut() {
        x = splitmix(x);
        *b = x as u8;
    }
    id
}

const H: Id = [0x12; 20];

impl Stage for Unasked {
    type Case = Case;
    fn name(&self) -> &'static str {
        "unasked"
    }
    fn cases(&self, tier: Tier) -> u32 {
        tier.pick(10000, 600000)
    }
    fn strategy(&self, _t: Tier) -> BoxedStrategy<Case> {
        let tid = prop_oneof![
            2 => vec(any::<u8>(), 0..8).prop_map(TidClass::Short),
            2 => vec(any::<u8>(), 9..=32).prop_map(TidClass::Long),
            2 => any::<u64>().prop_map(TidClass::ForeignAction),
            3 => (0u8..4, vec(any::<u8>(), 1..5)).prop_map(|(k, extra)| TidClass::RealPlusExtra { k, extra }),
            1 => (0u8..4, 0u8..8).prop_map(|(k, n)| TidClass::RealTruncated { k, n }),
            3 => (0u8..4, any::<bool>(), 1u8..=255).prop_map(|(k, byte, mask)| TidClass::RealPrefixFlipped { k, byte, mask }),
        ];
        let at = prop_oneof![2 => Just(0u32), 3 => 0u32..3000, 3 => 0u32..20_000];
        let inj = prop_oneof![
            2 => (at.clone(), 0u8..4).prop_map(|(at_ms, kind)| Inj::Query { at_ms, kind }),
            3 => (at.clone(), tid, any::<bool>()).prop_map(|(at_ms, tid, from_contact)| Inj::Resp { at_ms, tid, from_contact }),
            2 => (prop_oneof![at, 10_000u32..60_000], any::<u16>(), 0u8..3).prop_map(|(at_ms, k, kind)| Inj::QueryFromNamed { at_ms, k, kind }),
        ];
        (
            (any::<bool>(), prop::bool::weighted(0.3), 0u8..=6, 0u8..=3, 0u8..=2, 0u8..=1),
            prop_oneof![Just(0u16), 0u16..8, 150u16..260],
            any::<bool>(),
            proptest::option::weighted(0.6, prop_oneof![Just(0u32), 0u32..3000, 3000u32..15_000]),
            vec(inj, 2..24),
            any::<u64>(),
            proptest::option::weighted(0.12, prop_oneof![Just(0u16), 0u16..3_000, 0u16..12_000]),
        )
            .prop_map(|((v6, read_only, live, silent, routers_live, routers_silent), names, hostile_lists, search_at, injections, rt_seed, aged_sweep)| Case {
                v6, read_only, live, silent, routers_live, routers_silent, names, hostile_lists, search_at, injections, rt_seed, aged_sweep,
            })
            .boxed()
    }
    fn run(&self, c: &Case) -> Outcome {
        let rt = paused_rt(c.rt_seed);
        rt.block_on(async {
            let net = SimNet::new(Box::new(Instant0));
            let node = fam_addr(c.v6, 1, 6881);
            let node_id: Id = [0xC2; 20];
            // addresses
            let live: Vec<(Id, SocketAddr)> = (0..c.live).map(|i| (rid(100 + i as u64), fam_addr(c.v6, 100 + i as u16, 7000))).collect();
            let silent: Vec<SocketAddr> = (0..c.silent).map(|i| fam_addr(c.v6, 150 + i as u16, 7000)).collect();
            let routers_live: Vec<SocketAddr> = (0..c.routers_live).map(|i| fam_addr(c.v6, 200 + i as u16, 6881)).collect();
            let routers_silent: Vec<SocketAddr> = (0..c.routers_silent).map(|i| fam_addr(c.v6, 210 + i as u16, 6881)).collect();
            let all_routers: Vec<SocketAddr> = routers_live.iter().chain(&routers_silent).copied().collect();
            let own_id_addr = fam_addr(c.v6, 666, 6660); // address offered together with the node's own id
            // what answering contacts name in node lists
            let mut named: Vec<(Id, SocketAddr)> = live.clone();
            for i in 0..c.names {
                named.push((rid(5000 + i as u64), fam_addr(c.v6, 1000 + i, 7100)));
            }
            if c.hostile_lists {
                named.push((node_id, own_id_addr));
                for (i, r) in all_routers.iter().enumerate() {
                    named.push((rid(9000 + i as u64), *r));
                }
                if let Some(first) = live.first().copied() {
                    named.push(first);
                    named.push(first);
                    named.push((first.0, fam_addr(c.v6, 777, 7770))); // same id, other address
                }
            }
            let allowed: HashSet<SocketAddr> = live.iter().map(|l| l.1).chain(silent.iter().copied()).chain(named.iter().map(|n| n.1)).collect();
            let legit_values: Arc<Mutex<HashSet<SocketAddr>>> = Default::default();
            // answering contacts and routers
            let answerers: Vec<(Id, SocketAddr)> = live.iter().copied().chain(routers_live.iter().enumerate().map(|(i, a)| (rid(300 + i as u64), *a))).collect();
            let all_silent = Arc::new(std::sync::atomic::AtomicBool::new(false));
            for (n, (id, a)) in answerers.iter().enumerate() {
                let named = named.clone();
                let id = *id;
                let lv = legit_values.clone();
                let v6 = c.v6;
                let all_silent = all_silent.clone();
                spawn_puppet(&net, *a, move |_raw, msg, from, _now| {
                    if all_silent.load(std::sync::atomic::Ordering::Relaxed) {
                        return vec![];
                    }
                    let Some(m) = msg else { return vec![] };
                    let KBody::Query(q) = &m.body else { return vec![] };
                    // rotate through the (possibly long) name list, 8..40 names per answer
                    let (nodes, nodes6) = node_lists(&named);
                    let r = match q {
                        KQuery::Ping { .. } | KQuery::Announce { .. } => KResp { id: id.to_vec(), ..Default::default() },
                        KQuery::FindNode { .. } => KResp { id: id.to_vec(), nodes, nodes6, ..Default::default() },
                        KQuery::GetPeers { .. } => {
                            let v = fam_addr(v6, 3000 + n as u16, 1234);
                            lv.lock().unwrap().insert(v);
                            KResp { id: id.to_vec(), nodes, nodes6, token: Some(vec![n as u8; 4]), values: vec![v] }
                        }
                    };
                    vec![Out::now(from, &resp(&m.tid, r))]
                });
            }
            let dht = start_node(&net, &NodeCfg {
                addr: node,
                id: node_id,
                read_only: c.read_only,
                nodes: live.iter().map(|l| l.1).chain(silent.iter().copied()).collect(),
                routers: all_routers.iter().map(|r| r.to_string()).collect(),
                announce_port: None,
            });
            // optional search
            let found: Arc<Mutex<Vec<SocketAddr>>> = Default::default();
            if let Some(at) = c.search_at {
                let d = dht.clone();
                let f = found.clone();
                let n2 = net.clone();
                tokio::spawn(async move {
                    n2.sleep_until(Duration::from_millis(at as u64)).await;
                    let mut s = d.search(InfoHash::from(H), true);
                    while let Some(a) = s.next().await {
                        f.lock().unwrap().push(a);
                    }
                });
            }
            // injections in time order
            let mut inj: Vec<&Inj> = c.injections.iter().collect();
            inj.sort_by_key(|i| match i {
                Inj::Query { at_ms, .. } | Inj::Resp { at_ms, .. } | Inj::QueryFromNamed { at_ms, .. } => *at_ms,
            });
            let mut strangers: HashSet<SocketAddr> = HashSet::new();
            let mut forged_values: HashSet<SocketAddr> = HashSet::new();
            let mut forged_names: HashSet<SocketAddr> = HashSet::new();
            let mut classes: HashSet<&'static str> = HashSet::new();
            let mut busy = false;
            let answering: HashSet<SocketAddr> = live.iter().map(|l| l.1).collect();
            // named (hearsay) nodes that have sent the node a query: these may legitimately be good
            let mut queried_named: HashSet<SocketAddr> = HashSet::new();
            macro_rules! check {
                ($when:expr) => {{
                    let Some(Ok((good, quest))) = within(Duration::from_secs(5), dht.load_contacts()).await else {
                        return Outcome::violation("node-dead", format!("load_contacts does not answer {}", $when));
                    };
                    for a in good.iter().chain(quest.iter()) {
                        let why = if strangers.contains(a) {
                            Some("sender-of-unsolicited-datagram-admitted")
                        } else if forged_names.contains(a) {
                            Some("node-named-in-foreign-response-admitted")
                        } else if all_routers.contains(a) {
                            Some("router-admitted")
                        } else if *a == own_id_addr {
                            Some("own-id-admitted")
                        } else if !allowed.contains(a) {
                            Some("unknown-address-admitted")
                        } else {
                            None
                        };
                        if let Some(k) = why {
                            return Outcome::violation(k, format!("{}: contacts contain {a} (good: {}, questionable: {})", $when, good.len(), quest.len()));
                        }
                    }
                    if let Some(a) = good.iter().find(|a| !answering.contains(a) && !queried_named.contains(a)) {
                        return Outcome::violation("hearsay-contact-reported-good", format!("{}: {a} is reported good although it never answered or queried the node", $when));
                    }
                    if !good.is_empty() || !quest.is_empty() {
                        busy = true;
                    }
                    let f = found.lock().unwrap().clone();
                    let lv = legit_values.lock().unwrap().clone();
                    if let Some(v) = f.iter().find(|v| !lv.contains(v)) {
                        let k = if forged_values.contains(v) { "search-yields-value-of-foreign-response" } else { "search-yields-unknown-value" };
                        return Outcome::violation(k, format!("{}: the running search yielded {v}", $when));
                    }
                }};
            }
            for (n, i) in inj.iter().enumerate() {
                match i {
                    Inj::Query { at_ms, kind } => {
                        net.sleep_until(Duration::from_millis(*at_ms as u64)).await;
                        let src = fam_addr(c.v6, 4000 + n as u16, 8000);
                        strangers.insert(src);
                        let id = rid(7000 + n as u64).to_vec();
                        let q = match kind % 4 {
                            0 => KQuery::Ping { id },
                            1 => KQuery::FindNode { id, target: node_id.to_vec(), want: KWant::Absent },
                            2 => KQuery::GetPeers { id, info_hash: H.to_vec(), want: KWant::Both },
                            _ => KQuery::Announce { id, info_hash: H.to_vec(), port: None, token: vec![1; 20] },
                        };
                        classes.insert("query");
                        net.inject(src, node, &KMsg { tid: vec![b'q', n as u8], body: KBody::Query(q) }.encode());
                        net.settle().await;
                        check!(format!("after unsolicited query #{n} from {src}"));
                    }
                    Inj::QueryFromNamed { at_ms, k, kind } => {
                        net.sleep_until(Duration::from_millis(*at_ms as u64)).await;
                        if c.names == 0 {
                            continue;
                        }
                        let i = idx(*k, c.names as usize) as u16;
                        let (src, id) = (fam_addr(c.v6, 1000 + i, 7100), rid(5000 + i as u64).to_vec());
                        let Some(Ok((g0, q0))) = within(Duration::from_secs(5), dht.load_contacts()).await else {
                            return Outcome::violation("node-dead", "load_contacts does not answer");
                        };
                        let q = match kind % 3 {
                            0 => KQuery::Ping { id },
                            1 => KQuery::FindNode { id, target: node_id.to_vec(), want: KWant::Absent },
                            _ => KQuery::GetPeers { id, info_hash: H.to_vec(), want: KWant::Absent },
                        };
                        classes.insert("query-from-named-node");
                        queried_named.insert(src);
                        let start = net.log_len();
                        net.inject(src, node, &KMsg { tid: vec![b'n', n as u8], body: KBody::Query(q) }.encode());
                        net.settle().await;
                        let Some(Ok((g1, q1))) = within(Duration::from_secs(5), dht.load_contacts()).await else {
                            return Outcome::violation("node-dead", "load_contacts does not answer");
                        };
                        let before = g0.contains(&src) || q0.contains(&src);
                        let after = g1.contains(&src) || q1.contains(&src);
                        if !before && after {
                            // unless a genuine response named it (again) within 5 ms before or 1 ms after the query
                            let t_inj = *at_ms as u64;
                            let _ = start;
                            let renamed = net.log().iter().rev().take_while(|e| e.ms() + 5 >= t_inj).any(|e| {
                                e.to == node && e.kind == EvKind::Deliver && matches!(KMsg::decode(&e.bytes), Ok(KMsg { body: KBody::Resp(r), .. }) if r.nodes.iter().any(|x| SocketAddr::V4(x.1) == src) || r.nodes6.iter().any(|x| SocketAddr::V6(x.1) == src))
                            });
                            if !renamed {
                                return Outcome::violation("query-readmitted-its-sender", format!("{src} was not among the contacts (never admitted or dropped), sent a query at t={} ms, and is among the contacts afterwards (good: {})", at_ms, g1.contains(&src)));
                            }
                        }
                        check!(format!("after query #{n} from named node {src}"));
                    }
                    Inj::Resp { at_ms, tid, from_contact } => {
                        net.sleep_until(Duration::from_millis(*at_ms as u64)).await;
                        // most recent queries the node sent
                        let log = net.log();
                        let sent: Vec<(SocketAddr, Vec<u8>)> = log
                            .iter()
                            .rev()
                            .filter(|e| e.from == node && matches!(e.kind, EvKind::Send { .. }))
                            .filter_map(|e| KMsg::decode(&e.bytes).ok().and_then(|m| if matches!(m.body, KBody::Query(_)) { Some((e.to, m.tid)) } else { None }))
                            .take(4)
                            .collect();
                        let pick = |k: u8| sent.get(k as usize % sent.len().max(1)).cloned();
                        let (tidb, real_to, class): (Vec<u8>, Option<SocketAddr>, &'static str) = match tid {
                            TidClass::Short(b) => (b.clone(), None, "short-tid"),
                            TidClass::Long(b) => (b.clone(), None, "long-tid"),
                            TidClass::ForeignAction(x) => (((x | (1 << 44)) & 0xffff_ffff_ffff_ffff).to_be_bytes().to_vec(), None, "foreign-action"),
                            TidClass::RealPlusExtra { k, extra } => match pick(*k) {
                                Some((to, mut t)) => {
                                    t.extend_from_slice(extra);
                                    (t, Some(to), "real-tid-plus-extra-bytes")
                                }
                                None => (vec![1, 2, 3, 4, 5, 6, 7, 8, 9], None, "long-tid"),
                            },
                            TidClass::RealTruncated { k, n: keep } => match pick(*k) {
                                Some((to, t)) => (t[..(*keep as usize).min(7)].to_vec(), Some(to), "real-tid-truncated"),
                                None => (vec![1, 2, 3], None, "short-tid"),
                            },
                            TidClass::RealPrefixFlipped { k, byte, mask } => match pick(*k) {
                                Some((to, mut t)) if t.len() == 8 => {
                                    t[*byte as usize] ^= *mask;
                                    (t, Some(to), "real-tid-with-foreign-leading-byte")
                                }
                                _ => (vec![0x10, 2, 3, 4, 5, 6, 7, 8], None, "foreign-action"),
                            },
                        };
                        classes.insert(class);
                        let src = match (from_contact, real_to) {
                            (true, Some(to)) => to,
                            _ => {
                                let s = fam_addr(c.v6, 4500 + n as u16, 8100);
                                strangers.insert(s);
                                s
                            }
                        };
                        let fv = fam_addr(c.v6, 5000 + n as u16, 4321);
                        let fname = fam_addr(c.v6, 5500 + n as u16, 7200);
                        forged_values.insert(fv);
                        forged_names.insert(fname);
                        let (nodes, nodes6) = node_lists(&[(rid(8000 + n as u64), fname)]);
                        let r = KResp { id: rid(8500 + n as u64).to_vec(), token: Some(vec![9; 8]), values: vec![fv], nodes, nodes6 };
                        net.inject(src, node, &resp(&tidb, r).encode());
                        net.settle().await;
                        check!(format!("after response #{n} with {class} ({} bytes) from {src}", tidb.len()));
                    }
                }
            }
            // let things run on for a while, then look again (refresh, re-bootstrap, end of search)
            tokio::time::sleep(Duration::from_secs(40)).await;
            check!("40 s after the last injection".to_string());
            // find_node probes (serving nodes): replies never offer the node's own id, routers, strangers
            if !c.read_only {
                let probe = fam_addr(c.v6, 6000, 9000);
                strangers.insert(probe);
                for bit in [0usize, 1, 2, 7, 159] {
                    let mut t = node_id;
                    t[bit / 8] ^= 0x80 >> (bit % 8);
                    let start = net.log_len();
                    net.inject(probe, node, &KMsg { tid: vec![b'p'], body: KBody::Query(KQuery::FindNode { id: rid(1).to_vec(), target: t.to_vec(), want: KWant::Both }) }.encode());
                    net.settle().await;
                    for (_, m) in sent_by(&net.log_from(start), node) {
                        if let Some(KMsg { body: KBody::Resp(r), .. }) = m {
                            let offered: Vec<(Id, SocketAddr)> = r.nodes.iter().map(|(i, a)| (*i, SocketAddr::V4(*a))).chain(r.nodes6.iter().map(|(i, a)| (*i, SocketAddr::V6(*a)))).collect();
                            for (i, a) in offered {
                                if i == node_id || all_routers.contains(&a) || strangers.contains(&a) || forged_names.contains(&a) || a == own_id_addr {
                                    return Outcome::violation("find-node-offers-inadmissible-node", format!("find_node reply offers ({}, {a})", hex(&i)));
                                }
                            }
                        }
                    }
                }
                check!("after the find_node probes".to_string());
            }
            if let Some(delta) = c.aged_sweep {
                all_silent.store(true, std::sync::atomic::Ordering::Relaxed);
                // the last answer any contact gave
                let log = net.log();
                let t_last = log
                    .iter()
                    .rev()
                    .find(|e| e.to == node && e.kind == EvKind::Deliver && answering.contains(&e.from) && matches!(KMsg::decode(&e.bytes), Ok(KMsg { body: KBody::Resp(_), .. })))
                    .map(|e| e.ms())
                    .unwrap_or(net.now_ms());
                net.sleep_until(Duration::from_millis(t_last + 900_000 + delta as u64)).await;
                let d = dht.clone();
                tokio::spawn(async move {
                    let mut s = d.search(InfoHash::from([0x5E; 20]), false);
                    while s.next().await.is_some() {}
                });
                tokio::time::sleep(Duration::from_millis(5)).await;
                // action prefixes seen on the wire; the sweep is sound once both the bootstrap's and
                // the refresh's prefix have been used (the only activities that send find_node)
                let log = net.log();
                let mut seen: HashSet<Vec<u8>> = HashSet::new();
                let mut find_node_prefixes: HashSet<Vec<u8>> = HashSet::new();
                for e in log.iter().filter(|e| e.from == node && matches!(e.kind, EvKind::Send { .. } | EvKind::SendFailed)) {
                    if let Ok(KMsg { tid, body: KBody::Query(q) }) = KMsg::decode(&e.bytes) {
                        if tid.len() == 8 {
                            seen.insert(tid[..5].to_vec());
                            if matches!(q, KQuery::FindNode { .. }) {
                                find_node_prefixes.insert(tid[..5].to_vec());
                            }
                        }
                    }
                }
                if find_node_prefixes.len() >= 2 {
                    let src = fam_addr(c.v6, 4999, 8200);
                    strangers.insert(src);
                    let fname = fam_addr(c.v6, 5999, 7300);
                    forged_names.insert(fname);
                    let (nodes, nodes6) = node_lists(&[(rid(8999), fname)]);
                    for p in 0u16..2048 {
                        let prefix = vec![0, 0, 0, (p >> 8) as u8, p as u8];
                        if seen.contains(&prefix) {
                            continue;
                        }
                        let mut tid = prefix;
                        tid.extend_from_slice(&[0, 0, 1]);
                        let r = KResp { id: rid(8998).to_vec(), nodes: nodes.clone(), nodes6: nodes6.clone(), ..Default::default() };
                        net.inject(src, node, &resp(&tid, r).encode());
                    }
                    net.settle().await;
                    classes.insert("sweep-of-unused-action-prefixes");
                    check!(format!("after responses under every action prefix of the first block that never appeared on the wire ({} seen), sent {} ms after all contacts had turned questionable", seen.len(), delta));
                }
            }
            let nt = busy && classes.len() >= 2;
            Outcome::pass(nt).labels(classes.iter().map(|c| format!("class:{c}")))
        })
    }
    fn rule(&self) -> String {
        "one real node (serving/read-only, v4/v6) with 0..6 answering and 0..3 silent contacts and 0..3 literal routers (answering or silent); answering parties name up to 260 fresh silent addresses, and optionally the node's own id, router addresses, duplicates, one id under two addresses, in every node list; optionally a search is started; 2..23 injections at generated times from 0 ms (before any request) to 20 s: unsolicited queries of every kind from fresh strangers, and responses (carrying unique values, tokens and named nodes) whose transaction id is short (0..7 B), long (9..32 B), 8 bytes with an action id >= 2^20, a transaction id the node really just sent plus 1..4 extra bytes, a truncated real one, or a real one with one of its two leading bytes changed (same message id, action id >= 2^24), from a stranger or from the address the real query went to; and queries from the silent addresses that answering parties name (hearsay contacts, by then possibly dropped); in 12 % of the cases a final phase: all parties fall silent, 0..12 s after the last contact has aged to questionable a search is started, and a response is injected under each of the 2048 action prefixes of the first allocation block that never appeared on the wire (only when find_node queries under >= 2 prefixes were seen, i.e. bootstrap and refresh have both sent). Oracle after every injection, 40 s later and after find_node probes: contacts contain only configured contacts and addresses named by parties that were asked; never a stranger, a name from a foreign response, a router, the own id; good only for parties that answered; the search yields only values from genuine answers; a query never brings its sender (back) into the contacts. Non-trivial: the node had contacts or a running search, and >= 2 injection classes".into()
    }
}

pub fn spec() -> PropertySpec {
    PropertySpec {
        id: "C12",
        stages: vec![Box::new(Unasked)],
        assumptions: vec![
            "Forged 8-byte transaction ids use action ids >= 2^20, far above anything allocated in a run (action ids are handed out from shuffled blocks starting at 0).".into(),
            "Observed outside the property and not asserted: a response carrying the refresh activity's 5-byte prefix with any message id is admitted as a good node; a response with a live search's prefix adds its sender before the per-message check.".into(),
        ],
        explanation: "Oracle: membership invariants over load_contacts(), search stream items and find_node probe answers; every injected party/name/value is unique, so any admission is attributable.".into(),
    }
}
