//! C18 — table refresh keeps one steady cadence however often the node re-bootstraps.

use super::single::fam_addr;
use crate::bcodec::*;
use crate::engine::*;
use crate::sim::*;
use crate::world::*;
use btdht::verif::counters;
use btdht::InfoHash;
use proptest::collection::vec;
use proptest::prelude::*;
use serde::{Deserialize, Serialize};
use std::net::SocketAddr;
use std::sync::Arc;
use std::time::Duration;

#[derive(Clone, Debug, Serialize, Deserialize)]
pub struct Case {
    v6: bool,
    /// number of answering contacts (fewer than 10 => periodic re-bootstrap)
    puppets: u8,
    /// contacts name each other in find_node answers
    gossip: bool,
    /// run length in seconds
    secs: u32,
    /// (start_s, len_s) outages during which nobody answers
    outages: Vec<(u32, u32)>,
    /// extra contacts that the puppets name but to which every send_to fails with an io error
    #[serde(default)]
    unsendable: u8,
    /// extra contacts that the puppets name and that never answer (each costs the bootstrap two
    /// 500 ms timeouts per pass)
    #[serde(default)]
    silent_named: u8,
    /// puppets' answer delay in ms (0 makes bootstrap passes take whole multiples of 500 ms, so
    /// that completions coincide with refresh deadlines to the millisecond)
    #[serde(default = "ten")]
    rtt_ms: u8,
    /// a stranger pings the node every `.0` ms and the node's send of each reply takes `.1` ms
    /// (busy event loop while timers and bootstrap completions pile up)
    #[serde(default)]
    busy: Option<(u16, u16)>,
    rt_seed: u64,
}

fn ten() -> u8 {
    10
}

pub struct Cadence;

impl Stage for Cadence {
    type Case = Case;
    fn name(&self) -> &'static str {
        "cadence"
    }
    fn cases(&self, tier: Tier) -> u32 {
        tier.pick(400, 3000)
    }
    fn strategy(&self, tier: Tier) -> BoxedStrategy<Case> {
        let max = tier.pick(7200u32, 43_200u32);
        (
            any::<bool>(),
            prop_oneof![3 => 1u8..=9, 1 => 12u8..=20],
            any::<bool>(),
            prop_oneof![2 => 600u32..2400, 2 => 1800u32..max],
            prop_oneof![2 => Just(vec![]), 1 => vec((0u32..7000, 1u32..900), 1..4)],
            prop_oneof![2 => Just(0u8), 1 => 1u8..4],
            any::<u64>(),
            (prop_oneof![2 => Just(0u8), 2 => 1u8..4], prop_oneof![3 => Just(0u8), 2 => Just(10u8), 2 => 0u8..50], proptest::option::weighted(0.4, (300u16..1500, 10u16..70).prop_map(|(period, pct)| (period, (period as u32 * pct as u32 / 100) as u16)))),
        )
            .prop_map(|(v6, puppets, gossip, secs, outages, unsendable, rt_seed, (silent_named, rtt_ms, busy))| Case { v6, puppets, gossip, secs, outages, unsendable, silent_named, rtt_ms, busy, rt_seed })
            .boxed()
    }
    fn run(&self, c: &Case) -> Outcome {
        let rt = paused_rt(c.rt_seed);
        rt.block_on(async {
            counters::reset();
            let bad: Vec<SocketAddr> = (0..c.unsendable).map(|i| fam_addr(c.v6, 800 + i as u16, 7000)).collect();
            let bad2 = bad.clone();
            let node = fam_addr(c.v6, 1, 6881);
            let pinger = fam_addr(c.v6, 990, 9990);
            let base = move |d: &Dgram| if bad2.contains(&d.to) { Fate::SendError } else { Fate::Deliver(vec![Duration::ZERO]) };
            let net = SimNet::new(Box::new(SlowSends { inner: base, node, to: vec![pinger], ms: c.busy.map(|b| b.1 as u64).unwrap_or(0) }));
            if let Some((period, _)) = c.busy {
                spawn_pinger(&net, pinger, node, 100, period as u64, (c.secs as u64 * 1000 / period as u64) as u32);
            }
            let node_id: Id = [0x18; 20];
            let outages = Arc::new(c.outages.clone());
            let mut names: Vec<(Id, SocketAddr)> = vec![];
            for i in 0..c.puppets {
                let mut id = [0u8; 20];
                id[0] = i.wrapping_mul(29) ^ 0x80;
                id[1] = i;
                names.push((id, fam_addr(c.v6, 100 + i as u16, 7000)));
            }
            let mut named_all: Vec<(Id, SocketAddr)> = if c.gossip { names.clone() } else { vec![] };
            for (i, a) in bad.iter().enumerate() {
                let mut id = [0u8; 20];
                id[0] = 0x40 | i as u8;
                id[3] = 0xbd;
                named_all.push((id, *a));
            }
            for i in 0..c.silent_named {
                let mut id = [0u8; 20];
                id[0] = 0x20 | i;
                id[3] = 0x51;
                named_all.push((id, fam_addr(c.v6, 850 + i as u16, 7000))); // nobody listens there
            }
            let rtt = c.rtt_ms as u64;
            for (id, a) in names.clone() {
                let outages = outages.clone();
                let named = named_all.clone();
                spawn_puppet(&net, a, move |_raw, msg, from, now| {
                    let s = now.as_secs() as u32;
                    if outages.iter().any(|(a, l)| s >= *a && s < a + l) {
                        return vec![];
                    }
                    let Some(m) = msg else { return vec![] };
                    if !matches!(m.body, KBody::Query(_)) {
                        return vec![];
                    }
                    let (nodes, nodes6) = node_lists(&named);
                    vec![Out::after(rtt, from, &resp(&m.tid, KResp { id: id.to_vec(), nodes, nodes6, ..Default::default() }))]
                });
            }
            let dht = start_node(&net, &NodeCfg { addr: node, id: node_id, read_only: false, nodes: names.iter().map(|n| n.1).collect(), routers: vec![], announce_port: None });
            let nid = InfoHash::from(node_id);
            // samples: (t_ms, refresh rounds, bootstrap completions)
            let mut samples: Vec<(u64, u64, u64)> = vec![(0, 0, 0)];
            let mut t = 0u64;
            let end = c.secs as u64 * 1000;
            while t < end {
                t += 2_500;
                net.sleep_until(Duration::from_millis(t)).await;
                let k = counters::get(nid);
                if k.pending_refresh_checks > 1 {
                    return Outcome::violation("several-pending-refresh-checks", format!("at t={t} ms {} refresh checks are scheduled at once (after {} bootstrap completions)", k.pending_refresh_checks, k.bootstrap_completions));
                }
                samples.push((t, k.refresh_rounds, k.bootstrap_completions));
                if std::env::var_os("VERIF_DEBUG").is_some() {
                    eprintln!("t={t} rounds={} completions={} pending_refresh={} pending_all={}", k.refresh_rounds, k.bootstrap_completions, k.pending_refresh_checks, k.pending_checks);
                }
            }
            let alive = within(Duration::from_secs(2), dht.get_state()).await.flatten().is_some();
            if !alive {
                return Outcome::violation("node-dead", "get_state no longer answers");
            }
            // windowed rate bound over all sample pairs
            for j in 1..samples.len() {
                for i in 0..j {
                    let (t1, r1, c1) = samples[i];
                    let (t2, r2, c2) = samples[j];
                    let allowed = (t2 - t1) / 6000 + 1 + (c2 - c1);
                    if r2 - r1 > allowed {
                        return Outcome::violation(
                            "refresh-rate-exceeded",
                            format!("between t={t1} ms and t={t2} ms the node performed {} refresh rounds; allowed {} (window/6 s + 1 + {} bootstrap completions); totals at end: {} rounds, {} completions in {} s", r2 - r1, allowed, c2 - c1, samples.last().unwrap().1, samples.last().unwrap().2, c.secs),
                        );
                    }
                }
            }
            let (_, r_end, c_end) = *samples.last().unwrap();
            Outcome::pass(c_end >= 20 && c.secs >= 1800)
                .label(if c.puppets < 10 { "re-bootstrapping" } else { "stable" })
                .label(format!("rounds-per-min:{}", (r_end * 60 / c.secs.max(1) as u64).min(99)))
        })
    }
    fn rule(&self) -> String {
        "one real serving node with 1..9 answering contacts (fewer than 10 good nodes: re-bootstrap every ~5 s) or 12..20 (no re-bootstrap), optional outages, contacts naming each other or not, optionally 1..3 named contacts to which every send fails with an io error, 1..3 named contacts that never answer, answer delays of 0 (exact-millisecond coincidences of bootstrap completions with refresh deadlines), 10 or 0..49 ms, optionally a stranger pinging the node every 0.3..1.5 s whose replies take 10..70 % of that period to send (busy, but not overloaded, event loop); run length 10 min..2 h (thorough: ..12 h); hook counters sampled every 2.5 virtual seconds. Oracle: for all sample pairs t1<t2, refresh rounds in (t1,t2] <= (t2-t1)/6 s + 1 + bootstrap completions in (t1,t2]; never more than one refresh check pending. Non-trivial: >= 20 bootstrap completions and run >= 30 min".into()
    }
    fn watchdog_secs(&self, tier: Tier) -> u64 {
        tier.pick(900, 3600)
    }
}

pub fn spec() -> PropertySpec {
    PropertySpec {
        id: "C18",
        stages: vec![Box::new(Cadence)],
        assumptions: vec!["Refresh rounds, bootstrap completions and pending refresh checks are read from the cfg(btdht_verif) thread-local counters (hook H3).".into()],
        explanation: "Oracle: windowed rate bound over the whole history of counter samples.".into(),
    }
}
