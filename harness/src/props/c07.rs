//! C07 — peer store: exact, duplicate-free, 24-hour, capacity-bounded answers.

use super::single::*;
use crate::bcodec::*;
use crate::engine::*;
use crate::sim::paused_rt;
use btdht::verif::AnnounceStorage;
use btdht::InfoHash;
use proptest::collection::vec;
use proptest::prelude::*;
use serde::{Deserialize, Serialize};
use std::collections::{BTreeMap, HashSet};
use std::net::SocketAddr;
use std::time::Duration;

const DAY: u64 = 86_400_000;
const CAP: usize = 500;

#[derive(Clone, Debug, Serialize, Deserialize)]
pub enum Op {
    Gap { ms: u64 },
    Announce { v6: bool, ip: u8, sport: u8, hash: u8, explicit: Option<u16> },
    /// k announces from k distinct addresses starting at `base`, all on one hash
    Bulk { v6: bool, k: u16, base: u16, hash: u8 },
    /// re-announce the n-th oldest live pair
    Renew { n: u16 },
    Get { hash: u8, v6: bool },
}

#[derive(Clone, Debug, Serialize, Deserialize)]
pub struct Case {
    node_v6: bool,
    /// total virtual time budget in hours; gaps beyond it are shortened to < 5 s
    #[serde(default = "default_cap")]
    cap_h: u32,
    ops: Vec<Op>,
}

fn default_cap() -> u32 {
    10_000
}

fn gap(long: bool) -> impl Strategy<Value = u64> {
    prop_oneof![
        // very long idle periods (component tier only): 2^k ms +/- 5 s, k = 27..40 (2^32 ms = 49.7 days)
        if long { 1 } else { 0 } => (27u32..=40, 0u64..10_000).prop_map(|(k, d)| (1u64 << k) + d - 5_000),
        5 => 0u64..5_000,
        3 => 60_000u64..3_600_000,
        3 => (5u64..2_000).prop_map(|d| DAY - d),
        3 => (5u64..2_000).prop_map(|d| DAY + d),
        3 => 12 * 3_600_000u64..30 * 3_600_000,
        3 => 8 * 3_600_000u64..16 * 3_600_000,
    ]
}

fn op(bulk_weight: u32, long: bool) -> impl Strategy<Value = Op> {
    prop_oneof![
        6 => gap(long).prop_map(|ms| Op::Gap { ms }),
        8 => (prop::bool::weighted(0.3), 0u8..12, 0u8..3, 0u8..6, proptest::option::weighted(0.6, prop_oneof![3 => 1u16..4, 3 => any::<u16>(), 1 => Just(0u16), 1 => 2000u16..2003]))
            .prop_map(|(v6, ip, sport, hash, explicit)| Op::Announce { v6, ip, sport, hash, explicit }),
        bulk_weight => (prop::bool::weighted(0.3), prop_oneof![1u16..40, 200u16..600, 480u16..520], 0u16..3, 0u8..6)
            .prop_map(|(v6, k, base, hash)| Op::Bulk { v6, k, base: base * 300, hash }),
        3 => any::<u16>().prop_map(|n| Op::Renew { n }),
        6 => (0u8..6, prop::bool::weighted(0.3)).prop_map(|(hash, v6)| Op::Get { hash, v6 }),
    ]
}

fn strategy(max: usize, cap_h: u32) -> BoxedStrategy<Case> {
    let long = cap_h >= 1_000_000;
    // 10..15 % of the cases get bulk operations that can cross the 500-pair limit
    prop_oneof![
        6 => (any::<bool>(), vec(op(0, long), 10..max)),
        1 => (any::<bool>(), vec(op(3, long), 10..max)),
    ]
    .prop_map(move |(node_v6, ops)| Case { node_v6, cap_h, ops })
    .boxed()
}

fn hash_n(h: u8) -> Id {
    let mut x = [0u8; 20];
    x[0] = h;
    x[19] = 0xC7;
    x
}

enum Sut {
    Component(AnnounceStorage),
    System(Solo),
}

impl Sut {
    /// announce `contact` (reached as source `src` with port mode `explicit`): Ok(true)=ack, Ok(false)=202
    async fn announce(&mut self, src: SocketAddr, hash: u8, explicit: Option<u16>, contact: SocketAddr) -> Result<bool, String> {
        match self {
            Sut::Component(s) => Ok(s.add_item(InfoHash::from(hash_n(hash)), contact)),
            Sut::System(solo) => {
                let r = solo.get_peers(src, &hash_n(hash), KWant::Absent, b"tk").await?;
                let tok = r.token.ok_or("no token")?;
                match solo.announce(src, &hash_n(hash), explicit, &tok, b"an").await? {
                    Ok(()) => Ok(true),
                    Err(202) => Ok(false),
                    Err(c) => Err(format!("announce with a fresh valid token refused with error {c}")),
                }
            }
        }
    }
    /// Ok((values, fits)) — `fits`: the complete live set would have fit a 1500-byte reply
    async fn get(&mut self, hash: u8, v6: bool, full: &[SocketAddr]) -> Result<(Vec<SocketAddr>, bool), String> {
        match self {
            Sut::Component(s) => Ok((s.find_items(&InfoHash::from(hash_n(hash))).collect(), true)),
            Sut::System(solo) => {
                let src = fam_addr(v6, 950, 4000);
                let r = solo.get_peers(src, &hash_n(hash), KWant::Absent, b"gt").await?;
                let full_reply = KMsg { tid: b"gt".to_vec(), body: KBody::Resp(KResp { values: full.to_vec(), ..r.clone() }) };
                Ok((r.values, full_reply.encode().len() <= 1500))
            }
        }
    }
}

async fn run_history(c: &Case, mut sut: Sut, component: bool) -> Outcome {
    // model: (hash, contact) -> last ack time
    let mut model: BTreeMap<(u8, SocketAddr), u64> = BTreeMap::new();
    let mut first_ack: BTreeMap<(u8, SocketAddr), u64> = BTreeMap::new();
    let t0 = tokio::time::Instant::now();
    let (mut nt_renew, mut nt_refused, mut nt_freed) = (false, false, false);
    let mut refused_seen = false;
    let mut crossed = false;
    macro_rules! now {
        () => {
            (tokio::time::Instant::now() - t0).as_millis() as u64
        };
    }
    // returns Err(true) on boundary coincidence
    fn purge(model: &mut BTreeMap<(u8, SocketAddr), u64>, now: u64) -> bool {
        if model.values().any(|t| now - *t == DAY) {
            return true;
        }
        model.retain(|_, t| now - *t < DAY);
        false
    }
    for (n, op) in c.ops.iter().enumerate() {
        // expand into elementary announces
        let mut announces: Vec<(SocketAddr, u8, Option<u16>)> = vec![];
        match op {
            Op::Gap { ms } => {
                let ms = if now!() + *ms > c.cap_h as u64 * 3_600_000 { *ms % 5_000 } else { *ms };
                tokio::time::sleep(Duration::from_millis(ms)).await;
                continue;
            }
            Op::Announce { v6, ip, sport, hash, explicit } => announces.push((fam_addr(*v6, 1000 + *ip as u16, 2000 + *sport as u16), *hash, *explicit)),
            Op::Bulk { v6, k, base, hash } => {
                for i in 0..*k {
                    announces.push((fam_addr(*v6, 2000 + base + i, 3000), *hash, None));
                }
            }
            Op::Renew { n } => {
                let t = now!();
                let live: Vec<(&(u8, SocketAddr), &u64)> = model.iter().filter(|(_, at)| t - **at < DAY).collect();
                if live.is_empty() {
                    continue;
                }
                let mut byage: Vec<_> = live.into_iter().collect();
                byage.sort_by_key(|(k, at)| (**at, **k));
                let ((h, contact), _) = byage[idx(*n, byage.len())];
                // reach the same contact with an explicit port from a fixed source port
                announces.push((SocketAddr::new(contact.ip(), 2000), *h, Some(contact.port())));
            }
            Op::Get { hash, v6 } => {
                let t = now!();
                if purge(&mut model, t) {
                    return Outcome::pass(false).label("boundary-coincidence");
                }
                let live: Vec<SocketAddr> = model.keys().filter(|(h, a)| h == hash && (component || a.is_ipv6() == *v6)).map(|(_, a)| *a).collect();
                let (values, fits) = match sut.get(*hash, *v6, &live).await {
                    Ok(x) => x,
                    Err(e) => return Outcome::violation("get-peers-failed", format!("op #{n}: {e}")),
                };
                let set: HashSet<SocketAddr> = values.iter().copied().collect();
                if set.len() != values.len() {
                    return Outcome::violation("duplicate-peer", format!("op #{n} at t={t}: values for hash {hash} contain duplicates: {} entries, {} distinct", values.len(), set.len()));
                }
                let liveset: HashSet<SocketAddr> = live.iter().copied().collect();
                if let Some(v) = values.iter().find(|v| !liveset.contains(v)) {
                    let why = if first_ack.contains_key(&(*hash, *v)) { "expired-peer-listed" } else if v.is_ipv6() != *v6 && !component { "peer-of-other-family" } else { "unannounced-peer-listed" };
                    return Outcome::violation(why, format!("op #{n} at t={t}: get_peers(hash {hash}, requester v6={v6}) lists {v} which is not a live announced pair"));
                }
                if fits && set != liveset {
                    let missing: Vec<&SocketAddr> = live.iter().filter(|a| !set.contains(a)).take(3).collect();
                    return Outcome::violation("live-peer-missing", format!("op #{n} at t={t}: get_peers(hash {hash}, v6={v6}) lists {} of {} live pairs; missing e.g. {missing:?}", set.len(), liveset.len()));
                }
                if live.iter().any(|a| t - first_ack[&(*hash, *a)] >= DAY) {
                    nt_renew = true;
                }
                if refused_seen && !live.is_empty() {
                    nt_refused = true;
                }
                continue;
            }
        }
        for (src, hash, explicit) in announces {
            let t = now!();
            let before = model.len();
            if purge(&mut model, t) {
                return Outcome::pass(false).label("boundary-coincidence");
            }
            let contact = match explicit {
                Some(p) => SocketAddr::new(src.ip(), p),
                None => src,
            };
            let key = (hash, contact);
            let expect_ack = model.contains_key(&key) || model.len() < CAP;
            let acked = match sut.announce(src, hash, explicit, contact).await {
                Ok(a) => a,
                Err(e) => return Outcome::violation("announce-bad-reply", format!("op #{n}: {e}")),
            };
            let ctx = format!("op #{n} at t={t} ms: announce of {contact} (source {src}, port {explicit:?}) on hash {hash}, store holds {} live pairs", model.len());
            if expect_ack && !acked {
                let kind = if model.contains_key(&key) { "renewal-refused" } else { "refused-below-capacity" };
                return Outcome::violation(kind, format!("{ctx}: refused"));
            }
            if !expect_ack && acked {
                return Outcome::violation("accepted-beyond-capacity", format!("{ctx}: acknowledged a new pair beyond the 500-pair limit"));
            }
            if acked {
                if !model.contains_key(&key) && before >= CAP {
                    nt_freed = true;
                }
                model.insert(key, t);
                first_ack.entry(key).or_insert(t);
            } else {
                refused_seen = true;
                crossed = true;
            }
            if model.len() >= CAP {
                crossed = true;
            }
        }
    }
    Outcome::pass(nt_renew || nt_refused || nt_freed)
        .label(if crossed { "reached-capacity" } else { "below-capacity" })
        .label(if nt_renew { "renewal-outlived-original" } else { "no-such-renewal" })
}

const RULE: &str = "histories of 10..120 operations over up to several days: announce(source of either family, source port, hash of 6, explicit/implied port), bulk announces (1..600 distinct pairs, so ~10 % of histories cross the 500-pair limit), renewals of the n-th oldest live pair, get_peers(hash, requester family), gaps from {0..5 s, minutes..hours, 24 h -/+ 5 ms..2 s, 12..30 h}. Oracle: reference map (hash, contact) -> last ack time: ack/202 decisions, values duplicate-free, subset of live pairs of that hash/family, equal to it whenever the full set fits a 1500-byte reply. An age of exactly 24 h ends the case (counted trivial). Non-trivial: a read that sees a pair alive only thanks to a renewal, or a refusal followed by reads of earlier pairs, or capacity freed by expiry and then used";

pub struct Component;

impl Stage for Component {
    type Case = Case;
    fn name(&self) -> &'static str {
        "announce-storage"
    }
    fn cases(&self, tier: Tier) -> u32 {
        tier.pick(20_000, 300_000)
    }
    fn strategy(&self, _t: Tier) -> BoxedStrategy<Case> {
        strategy(120, 1_000_000)
    }
    fn run(&self, c: &Case) -> Outcome {
        let rt = paused_rt(1);
        rt.block_on(async { run_history(c, Sut::Component(AnnounceStorage::new()), true).await })
    }
    fn rule(&self) -> String {
        format!("[re-exported AnnounceStorage, no network, no family filter; additionally idle periods of 2^k ms +/- 5 s, k = 27..40] {RULE}")
    }
    fn sample(&self, c: &Case) -> serde_json::Value {
        serde_json::json!({"node_v6": c.node_v6, "n_ops": c.ops.len(), "first": c.ops.iter().take(6).map(|e| format!("{e:?}")).collect::<Vec<_>>()})
    }
}

pub struct System;

impl Stage for System {
    type Case = Case;
    fn name(&self) -> &'static str {
        "node"
    }
    fn cases(&self, tier: Tier) -> u32 {
        tier.pick(240, 6_000)
    }
    fn strategy(&self, t: Tier) -> BoxedStrategy<Case> {
        // an idle real node costs ~1.4 s wall per virtual day (its 6 s refresh timer), so the
        // system tier uses shorter histories than the component tier
        strategy(t.pick(40, 100), t.pick(54, 130))
    }
    fn run(&self, c: &Case) -> Outcome {
        let rt = paused_rt(1);
        rt.block_on(async {
            let solo = Solo::start(c.node_v6, [0x43; 20]);
            solo.net.settle().await;
            run_history(c, Sut::System(solo), false).await
        })
    }
    fn rule(&self) -> String {
        format!("[real serving node on the simulated network; every announce preceded by the get_peers that yields its token] {RULE}")
    }
    fn sample(&self, c: &Case) -> serde_json::Value {
        Component.sample(c)
    }
}

pub fn spec() -> PropertySpec {
    PropertySpec {
        id: "C07",
        stages: vec![Box::new(Component), Box::new(System)],
        assumptions: vec![
            "Exact equality of the returned set is asserted whenever the complete live set fits a 1500-byte reply next to the id/token/nodes actually returned (C17 bounds replies); otherwise subset + duplicate-freedom.".into(),
            "Ages of exactly 24 h are not asserted (case ends, counted trivial).".into(),
            "Virtual clock (hook H1).".into(),
        ],
        explanation: "Oracle: reference map model of the peer store written from the property statement.".into(),
    }
}
