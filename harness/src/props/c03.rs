//! C03 — searches never fabricate peers, tokens or announce targets on hostile networks.

use super::searchworld::*;
use super::single::fam_addr;
use crate::bcodec::*;
use crate::engine::*;
use crate::sim::*;
use crate::world::*;
use btdht::InfoHash;
use futures_util::StreamExt;
use proptest::collection::vec;
use proptest::prelude::*;
use serde::{Deserialize, Serialize};
use std::collections::{BTreeMap, HashMap, HashSet};
use std::net::SocketAddr;
use std::sync::{Arc, Mutex};
use std::time::Duration;

#[derive(Clone, Debug, Serialize, Deserialize)]
pub enum FateSpec {
    Ok(u16),
    Drop,
    Slow(u16),
    Dup(u16, u16),
    Dup3(u16, u16, u16),
}

#[derive(Clone, Debug, Serialize, Deserialize)]
pub enum ForgeClass {
    /// 8 random bytes
    RandomTid(u64),
    /// the observed query's 5-byte prefix with a random message id
    SamePrefixOtherMessage(u32),
    /// transaction id of the most recent get_peers of another search
    OtherSearch,
    /// transaction id of the most recent find_node (bootstrap / refresh traffic)
    Maintenance,
    /// the observed query's own transaction id (late replay, or racing the genuine answer)
    SameTid,
    /// the observed transaction id cut to 7 bytes / extended by one byte
    Truncated,
    Extended,
}

#[derive(Clone, Debug, Serialize, Deserialize)]
pub struct Forge {
    /// acts on the k-th get_peers the node sends (counted over all searches)
    on: u16,
    delay_ms: u16,
    class: ForgeClass,
    /// from the address the query went to (else: from a stranger)
    from_queried: bool,
}

#[derive(Clone, Debug, Serialize, Deserialize)]
pub struct SearchSpec {
    start_ms: u16,
    announce: bool,
}

#[derive(Clone, Debug, Serialize, Deserialize)]
pub struct Case {
    v6: bool,
    n: u8,
    world_seed: u64,
    cluster_bits: u8,
    read_only: bool,
    contacts: Vec<u8>,
    fates: Vec<FateSpec>,
    hostile_names: u8,
    own_id_named: bool,
    dup_id_named: bool,
    searches: Vec<SearchSpec>,
    forges: Vec<Forge>,
    rt_seed: u64,
}

pub struct Hostile;

fn hash_of(k: usize) -> Id {
    let mut h = [0x30u8; 20];
    h[0] = 0x11 * (k as u8 + 1);
    h[7] = k as u8;
    h
}

struct Seen {
    tid: Vec<u8>,
    to: SocketAddr,
    hash: Vec<u8>,
}

impl Stage for Hostile {
    type Case = Case;
    fn name(&self) -> &'static str {
        "hostile"
    }
    fn cases(&self, tier: Tier) -> u32 {
        tier.pick(15000, 600000)
    }
    fn watchdog_secs(&self, tier: Tier) -> u64 {
        tier.pick(600, 1800)
    }
    fn strategy(&self, _t: Tier) -> BoxedStrategy<Case> {
        let fate = prop_oneof![
            6 => (0u16..999).prop_map(FateSpec::Ok),
            3 => Just(FateSpec::Ok(0)),
            2 => Just(FateSpec::Drop),
            2 => (1000u16..5000).prop_map(FateSpec::Slow),
            1 => (0u16..2000, 0u16..3000).prop_map(|(a, b)| FateSpec::Dup(a, b)),
            1 => (0u16..500, 0u16..2000, 0u16..4000).prop_map(|(a, b, c)| FateSpec::Dup3(a, b, c)),
        ];
        let class = prop_oneof![
            1 => any::<u64>().prop_map(ForgeClass::RandomTid),
            3 => any::<u32>().prop_map(ForgeClass::SamePrefixOtherMessage),
            2 => Just(ForgeClass::OtherSearch),
            2 => Just(ForgeClass::Maintenance),
            4 => Just(ForgeClass::SameTid),
            1 => Just(ForgeClass::Truncated),
            1 => Just(ForgeClass::Extended),
        ];
        let forge = (0u16..40, prop_oneof![3 => Just(0u16), 3 => 0u16..1400, 2 => 1400u16..1600, 3 => 1600u16..4000], class, any::<bool>())
            .prop_map(|(on, delay_ms, class, from_queried)| Forge { on, delay_ms, class, from_queried });
        (
            (any::<bool>(), 1u8..=40, any::<u64>(), prop_oneof![Just(0u8), 0u8..150], any::<bool>()),
            vec(any::<u8>(), 1..=6),
            vec(fate, 1..48),
            (prop_oneof![Just(0u8), 0u8..50], any::<bool>(), any::<bool>()),
            vec((0u16..3000, any::<bool>()).prop_map(|(start_ms, announce)| SearchSpec { start_ms, announce }), 1..=3),
            vec(forge, 0..16),
            any::<u64>(),
        )
            .prop_map(|((v6, n, world_seed, cluster_bits, read_only), contacts, fates, (hostile_names, own_id_named, dup_id_named), searches, forges, rt_seed)| Case {
                v6, n, world_seed, cluster_bits, read_only, contacts, fates, hostile_names, own_id_named, dup_id_named, searches, forges, rt_seed,
            })
            .boxed()
    }
    fn run(&self, c: &Case) -> Outcome {
        let rt = paused_rt(c.rt_seed);
        rt.block_on(async {
            let n = c.n as usize;
            let node = fam_addr(c.v6, 1, 6881);
            let sid: Id = rand_id(c.world_seed ^ 0xfeed);
            let mut world: Vec<(Id, SocketAddr)> = vec![];
            for i in 0..n {
                let id = clustered_id(&hash_of(i % c.searches.len()), c.cluster_bits as usize, splitmix(c.world_seed ^ (i as u64) << 24));
                let mut id = id;
                id[19] = i as u8;
                world.push((id, fam_addr(c.v6, 100 + i as u16, 7000)));
            }
            let mut extra: Vec<(Id, SocketAddr)> = vec![];
            for k in 0..c.hostile_names {
                extra.push((rand_id(c.world_seed ^ 0xbad ^ k as u64), fam_addr(c.v6, 2000 + k as u16, 7300))); // unreachable
            }
            if c.own_id_named {
                extra.push((sid, fam_addr(c.v6, 2100, 7300)));
                extra.push((rand_id(77), node));
                extra.push((sid, node));
            }
            if c.dup_id_named {
                extra.push((world[0].0, fam_addr(c.v6, 2200, 7300)));
                extra.push(world[0]);
                extra.push(world[0]);
            }
            let world = Arc::new(world);
            let peers: Vec<Vec<SocketAddr>> = (0..n).map(|i| vec![fam_addr(c.v6, 5000 + i as u16, 1000 + i as u16)]).collect();
            let legit_values: HashSet<SocketAddr> = peers.iter().flatten().copied().collect();
            // fault policy + notification of the attacker
            let fates = c.fates.clone();
            let (tx, mut rx) = tokio::sync::mpsc::unbounded_channel::<(SocketAddr, Vec<u8>, Option<Vec<u8>>)>();
            let net = SimNet::new(Box::new(move |d: &Dgram| {
                if d.from == node {
                    if let Ok(KMsg { tid, body: KBody::Query(q) }) = KMsg::decode(d.bytes) {
                        match q {
                            KQuery::GetPeers { info_hash, .. } => {
                                let _ = tx.send((d.to, tid, Some(info_hash)));
                            }
                            KQuery::FindNode { .. } => {
                                let _ = tx.send((d.to, tid, None));
                            }
                            _ => {}
                        }
                    }
                }
                let h = splitmix((d.seq as u64) << 32 ^ d.from.port() as u64 ^ (d.to.port() as u64) << 16 ^ match d.to.ip() {
                    std::net::IpAddr::V4(a) => u32::from(a) as u64,
                    std::net::IpAddr::V6(a) => a.octets()[15] as u64 | (a.octets()[14] as u64) << 8,
                });
                let ms = |x: u16| Duration::from_millis(x as u64);
                Fate::Deliver(match &fates[(h % fates.len() as u64) as usize] {
                    FateSpec::Ok(d) => vec![ms(*d)],
                    FateSpec::Drop => vec![],
                    FateSpec::Slow(d) => vec![ms(*d)],
                    FateSpec::Dup(a, b) => vec![ms(*a), ms(*b)],
                    FateSpec::Dup3(a, b, cc) => vec![ms(*a), ms(*b), ms(*cc)],
                })
            }));
            let rec = Arc::new(Mutex::new(WorldRecord::default()));
            spawn_omniscient(&net, world.clone(), Arc::new(peers), Arc::new(extra), Arc::new(|_, _| 0), rec.clone());
            // attacker
            let forged_values: Arc<Mutex<HashSet<SocketAddr>>> = Default::default();
            let forged_delivered = Arc::new(Mutex::new(0u32));
            {
                let net = net.clone();
                let forges = c.forges.clone();
                let fv = forged_values.clone();
                let fd = forged_delivered.clone();
                let v6 = c.v6;
                tokio::spawn(async move {
                    let mut k = 0u16;
                    let mut last_by_hash: HashMap<Vec<u8>, Seen> = HashMap::new();
                    let mut last_maint: Option<Vec<u8>> = None;
                    let mut serial = 0u16;
                    while let Some((to, tid, hash)) = rx.recv().await {
                        let Some(hash) = hash else {
                            last_maint = Some(tid);
                            continue;
                        };
                        for f in forges.iter().filter(|f| f.on == k) {
                            let ftid: Option<Vec<u8>> = match &f.class {
                                ForgeClass::RandomTid(x) => Some(x.to_be_bytes().to_vec()),
                                ForgeClass::SamePrefixOtherMessage(x) => {
                                    let mut t = tid.clone();
                                    if t.len() == 8 {
                                        t[5] = (*x >> 16) as u8;
                                        t[6] = (*x >> 8) as u8;
                                        t[7] = *x as u8;
                                        if t == tid {
                                            t[7] ^= 1;
                                        }
                                    }
                                    Some(t)
                                }
                                ForgeClass::OtherSearch => last_by_hash.iter().filter(|(h, _)| **h != hash).map(|(_, s)| s.tid.clone()).next(),
                                ForgeClass::Maintenance => last_maint.clone(),
                                ForgeClass::SameTid => Some(tid.clone()),
                                ForgeClass::Truncated => Some(tid[..tid.len().min(7)].to_vec()),
                                ForgeClass::Extended => {
                                    let mut t = tid.clone();
                                    t.push(0);
                                    Some(t)
                                }
                            };
                            let Some(ftid) = ftid else { continue };
                            serial += 1;
                            let src = if f.from_queried { to } else { fam_addr(v6, 3000 + serial, 6666) };
                            let val = fam_addr(v6, 6000 + serial, 4444);
                            fv.lock().unwrap().insert(val);
                            let (nodes, nodes6) = node_lists(&[(rand_id(serial as u64 + 900), fam_addr(v6, 6500 + serial, 7400))]);
                            let mut token = b"FORGED".to_vec();
                            token.extend_from_slice(&serial.to_be_bytes());
                            let msg = resp(&ftid, KResp { id: rand_id(serial as u64 + 500).to_vec(), token: Some(token), values: vec![val], nodes, nodes6 }).encode();
                            let net = net.clone();
                            let delay = f.delay_ms as u64;
                            let fd = fd.clone();
                            tokio::spawn(async move {
                                tokio::time::sleep(Duration::from_millis(delay)).await;
                                net.inject(src, node, &msg);
                                *fd.lock().unwrap() += 1;
                            });
                        }
                        last_by_hash.insert(hash.clone(), Seen { tid, to, hash });
                        k += 1;
                    }
                });
            }
            let mut contacts: Vec<SocketAddr> = c.contacts.iter().map(|k| world[*k as usize % n].1).collect();
            contacts.sort();
            contacts.dedup();
            let dht = start_node(&net, &NodeCfg { addr: node, id: sid, read_only: c.read_only, nodes: contacts, routers: vec![], announce_port: None });
            // hostile networks may keep the node from bootstrapping for a long time; give it a chance
            // (a search issued before the first bootstrap completion legitimately waits for it: C16)
            if within(Duration::from_secs(900), dht.bootstrapped()).await != Some(true) {
                return Outcome::pass(false).label("never-bootstrapped");
            }
            let t_base = net.now_ms();
            // searches
            let results: Arc<Mutex<Vec<Option<(u64, u64, Vec<SocketAddr>)>>>> = Arc::new(Mutex::new(vec![None; c.searches.len()]));
            let mut handles = vec![];
            for (k, s) in c.searches.iter().enumerate() {
                let dht = dht.clone();
                let net2 = net.clone();
                let res = results.clone();
                let (start, announce) = (s.start_ms as u64, s.announce);
                handles.push(tokio::spawn(async move {
                    net2.sleep_until(Duration::from_millis(t_base + start)).await;
                    let t0 = net2.now_ms();
                    let mut st = dht.search(InfoHash::from(hash_of(k)), announce);
                    let mut got = vec![];
                    while let Some(a) = st.next().await {
                        got.push(a);
                    }
                    res.lock().unwrap()[k] = Some((t0, net2.now_ms(), got));
                }));
            }
            for h in handles {
                if within(Duration::from_secs(1200), h).await.is_none() {
                    if std::env::var_os("VERIF_DEBUG").is_some() {
                        let st = within(Duration::from_secs(1), dht.get_state()).await;
                        eprintln!("state: {st:?}");
                        for e in net.log().iter().filter(|e| e.from == node).rev().take(12) {
                            eprintln!("  {} {:?} -> {} {:?}", e.ms(), e.kind, e.to, KMsg::decode(&e.bytes).map(|m| format!("{:?}", m.body).chars().take(90).collect::<String>()));
                        }
                    }
                    return Outcome::violation("search-does-not-end", "a search is still open 1200 s after it started");
                }
            }
            tokio::time::sleep(Duration::from_secs(6)).await; // late duplicates, announces
            let log = net.log();
            let fvals = forged_values.lock().unwrap().clone();
            let mut nt = false;
            let res = results.lock().unwrap().clone();
            let mut windows: Vec<(u64, u64)> = vec![];
            for (k, s) in c.searches.iter().enumerate() {
                let Some((t_start, t_end, yielded)) = res[k].clone() else { continue };
                windows.push((t_start, t_end));
                let h = hash_of(k);
                let obs = observe_searches(&log, node, &h);
                if obs.len() > 1 {
                    return Outcome::violation("several-prefixes-for-one-search", format!("search {k}: {} prefixes", obs.len()));
                }
                let Some(o) = obs.first() else {
                    if let Some(v) = yielded.first() {
                        return Outcome::violation("value-without-query", format!("search {k} sent no query but yielded {v}"));
                    }
                    continue;
                };
                let t_eg = t_end.saturating_sub(1500);
                // outstanding windows per transaction id
                let mut expiry: HashMap<Vec<u8>, (u64, u64)> = HashMap::new(); // tid -> (sent, expiry)
                for (t, _, tid) in &o.get_peers {
                    let e = if *t + 2 < t_eg { *t + 1500 } else { t_end };
                    expiry.insert(tid.clone(), (*t, e));
                }
                let mut consumed: HashSet<Vec<u8>> = HashSet::new();
                let mut accepted: Vec<&(u64, SocketAddr, Vec<u8>, KResp)> = vec![]; // definitely or maybe accepted
                let mut foreign_seen = false;
                for r in &o.responses {
                    let genuine_src = o.get_peers.iter().any(|g| g.2 == r.2 && g.1 == r.1);
                    if !genuine_src || r.3.token.as_deref().map(|t| t.starts_with(b"FORGED")).unwrap_or(false) {
                        foreign_seen = true;
                    }
                    let Some((sent, exp)) = expiry.get(&r.2).copied() else { continue };
                    if r.0 < sent || consumed.contains(&r.2) {
                        if consumed.contains(&r.2) {
                            foreign_seen = true; // duplicate delivery
                        }
                        continue;
                    }
                    if r.0 <= exp + 2 {
                        accepted.push(r);
                        if r.0 + 2 < exp {
                            consumed.insert(r.2.clone()); // certainly accepted: later copies cannot be
                        }
                    }
                }
                if foreign_seen {
                    nt = true;
                }
                // (1) stream is a sub-multiset of the accepted values
                let mut avail: BTreeMap<SocketAddr, i64> = BTreeMap::new();
                for r in &accepted {
                    for v in &r.3.values {
                        *avail.entry(*v).or_insert(0) += 1;
                    }
                }
                for v in &yielded {
                    let e = avail.entry(*v).or_insert(0);
                    *e -= 1;
                    if *e < 0 {
                        let kind = if fvals.contains(v) {
                            "stream-yields-value-of-unaccepted-forged-response"
                        } else if legit_values.contains(v) {
                            "stream-yields-value-more-often-than-accepted"
                        } else {
                            "stream-yields-fabricated-value"
                        };
                        return Outcome::violation(kind, format!("search {k}: yielded {v}, which is not (or not that often) among the values of responses whose transaction id was outstanding at delivery ({} accepted responses, {} yielded)", accepted.len(), yielded.len()));
                    }
                }
                // (2)-(4) announces
                if !s.announce && !o.announces.is_empty() {
                    return Outcome::violation("announce-although-not-requested", format!("search {k}: announce_peer to {}", o.announces[0].1));
                }
                if o.announces.len() > 8 {
                    return Outcome::violation("too-many-announces", format!("search {k}: {} announce_peer datagrams", o.announces.len()));
                }
                for (t, to, token, ih, _port, _id) in &o.announces {
                    if ih[..] != h[..] {
                        return Outcome::violation("announce-wrong-info-hash", format!("search {k}: announce to {to} carries {}", hex(ih)));
                    }
                    let from_it: Vec<&&(u64, SocketAddr, Vec<u8>, KResp)> = accepted.iter().filter(|r| r.1 == *to && r.0 <= *t + 2 && r.3.token.is_some()).collect();
                    if from_it.is_empty() {
                        return Outcome::violation("announce-to-node-that-never-answered", format!("search {k}: announce to {to}, but no accepted response with a token came from that address"));
                    }
                    if !from_it.iter().any(|r| r.3.token.as_deref() == Some(&token[..])) {
                        return Outcome::violation("announce-with-fabricated-token", format!("search {k}: announce to {to} carries token {} which no accepted response from that address contained", hex(token)));
                    }
                    // latest token per responder id: the announce's token must be the latest for some id
                    let mut latest: HashMap<&Vec<u8>, Vec<&Vec<u8>>> = HashMap::new();
                    for r in &from_it {
                        let certainly = expiry.get(&r.2).map(|(_, e)| r.0 + 2 < *e).unwrap_or(false);
                        let e = latest.entry(&r.3.id).or_default();
                        if certainly {
                            e.clear();
                        }
                        e.push(r.3.token.as_ref().unwrap());
                    }
                    if !latest.values().any(|toks| toks.iter().any(|x| x[..] == token[..])) {
                        return Outcome::violation("announce-with-stale-token", format!("search {k}: announce to {to} carries token {} although a later accepted response from the same node carried another", hex(token)));
                    }
                }
                // (5) nothing after the stream closed
                if let Some(g) = o.get_peers.iter().find(|g| g.0 > t_end + 2) {
                    return Outcome::violation("query-after-close", format!("search {k}: get_peers to {} {} ms after the stream closed", g.1, g.0 - t_end));
                }
                if let Some(a) = o.announces.iter().find(|a| a.0 > t_end + 2) {
                    return Outcome::violation("announce-after-close", format!("search {k}: announce_peer to {} {} ms after the stream closed", a.1, a.0 - t_end));
                }
            }
            let overlap = windows.iter().enumerate().any(|(i, a)| windows.iter().enumerate().any(|(j, b)| i != j && a.0 < b.1 && b.0 < a.1));
            let alive = within(Duration::from_secs(5), dht.get_state()).await.flatten().is_some();
            if !alive {
                return Outcome::violation("node-dead", "get_state no longer answers");
            }
            Outcome::pass(nt || overlap)
                .label(if overlap { "overlapping-searches" } else { "single-or-sequential" })
                .label(format!("forged-delivered:{}", (*forged_delivered.lock().unwrap()).min(9)))
        })
    }
    fn rule(&self) -> String {
        "worlds of 1..40 honest omniscient nodes whose node lists additionally carry hostile entries (0..49 unreachable addresses, the searcher's own id and address, one id under several addresses, duplicates); per-datagram fault table (delay 0..999 ms, drop, delay 1..5 s, duplicate x2/x3 with independent delays) indexed by datagram identity; 1..3 concurrent searches for different info-hashes (with/without announce) on one real node (serving or read-only); an attacker that sees every query and injects 0..15 forged responses 0..4 s after the k-th get_peers: random 8-byte id, the search's prefix with another message id, the id of another search's or of a maintenance query, the very same id (racing the genuine answer or replayed after the timeout), truncated/extended ids, from the queried address or a stranger, each carrying unique values, token and names. Oracle (history invariant over the wire log, end-game start derived from the stream's closing time): yielded values form a sub-multiset of the values of responses whose id was outstanding at delivery (first delivery wins; +-2 ms either way); every announce_peer targets an address that sent such a response with a token, carries the latest token of one node at that address and the search's info-hash; <= 8 announces, none if not requested, nothing after the stream closed. Non-trivial: a forged/foreign/duplicate response was delivered to the search, or two searches overlapped".into()
    }
    fn sample(&self, c: &Case) -> serde_json::Value {
        serde_json::json!({"n": c.n, "searches": c.searches.len(), "forges": c.forges.iter().take(4).map(|f| format!("{f:?}")).collect::<Vec<_>>(), "fates": c.fates.iter().take(6).map(|f| format!("{f:?}")).collect::<Vec<_>>(), "hostile_names": c.hostile_names})
    }
}

pub fn spec() -> PropertySpec {
    PropertySpec {
        id: "C03",
        stages: vec![Box::new(Hostile)],
        assumptions: vec![
            "A response counts as accepted when its transaction id belongs to a get_peers of that search that is outstanding at delivery: not yet answered, younger than 1.5 s for queries of the iterative phase, until the stream closes for end-game queries; the end-game is taken to start 1.5 s before the stream closes. Deliveries within 2 ms of an expiry are allowed either way.".into(),
            "The property does not require the source of an accepted response to be the queried node; neither does the oracle.".into(),
        ],
        explanation: "Oracle: provenance of every yielded address and of every announce_peer, decided from the complete wire log.".into(),
    }
}

/// Debug helper (not used by checks): run a case's world and print what the node does.
pub fn debug_case(case_json: &str) {
    let c: Case = serde_json::from_str(case_json).expect("case");
    let out = Hostile.run(&c);
    println!("outcome: {:?}", out.verdict);
}
