//! C02 — a search reaches the 8 closest nodes, announces to them, yields every peer found.

use super::searchworld::*;
use super::single::fam_addr;
use crate::bcodec::*;
use crate::engine::*;
use crate::sim::*;
use crate::world::*;
use btdht::InfoHash;
use futures_util::StreamExt;
use proptest::collection::vec;
use proptest::prelude::*;
use serde::{Deserialize, Serialize};
use std::collections::{BTreeMap, HashSet};
use std::net::SocketAddr;
use std::sync::{Arc, Mutex};
use std::time::Duration;

#[derive(Clone, Debug, Serialize, Deserialize)]
pub enum Placement {
    Uniform,
    /// ids share `bits` leading bits with the info-hash
    AroundTarget { bits: u8 },
    /// ids share `bits` leading bits with the searcher's id
    AroundSearcher { bits: u8 },
    /// half and half
    Mixed { bits: u8 },
}

#[derive(Clone, Debug, Serialize, Deserialize)]
pub struct Case {
    v6: bool,
    n: u16,
    placement: Placement,
    world_seed: u64,
    #[serde(with = "hexser")]
    info_hash: Vec<u8>,
    #[serde(with = "hexser")]
    searcher_id: Vec<u8>,
    /// indices (mod n) of the bootstrap contacts
    contacts: Vec<u16>,
    /// peers held by puppet (index mod n): (count, seed)
    peers: Vec<(u16, u8, u8)>,
    lat: Vec<u16>,
    read_only: bool,
    announce_port: Option<u16>,
    announce: bool,
    rt_seed: u64,
}

pub struct Reach;

impl Stage for Reach {
    type Case = Case;
    fn name(&self) -> &'static str {
        "search"
    }
    fn cases(&self, tier: Tier) -> u32 {
        tier.pick(12000, 400000)
    }
    fn watchdog_secs(&self, tier: Tier) -> u64 {
        tier.pick(600, 1800)
    }
    fn strategy(&self, tier: Tier) -> BoxedStrategy<Case> {
        let big = tier.pick(1u32, 3u32);
        let placement = prop_oneof![
            3 => Just(Placement::Uniform),
            3 => (0u8..=156).prop_map(|bits| Placement::AroundTarget { bits }),
            2 => (0u8..=156).prop_map(|bits| Placement::AroundSearcher { bits }),
            2 => (0u8..=150).prop_map(|bits| Placement::Mixed { bits }),
        ];
        (
            (any::<bool>(), prop_oneof![70 => 1u16..=20, 25 => 21u16..=200, big => Just(1000u16)], placement, any::<u64>()),
            (super::c13::id20(), super::c13::id20()),
            vec(any::<u16>(), 1..=8),
            vec((any::<u16>(), 0u8..=6, any::<u8>()), 0..12),
            vec(prop_oneof![Just(0u16), 0u16..100, 0u16..999], 1..64),
            (any::<bool>(), proptest::option::of(1u16..), prop::bool::weighted(0.8), any::<u64>()),
        )
            .prop_map(|((v6, n, placement, world_seed), (info_hash, searcher_id), contacts, peers, lat, (read_only, announce_port, announce, rt_seed))| Case {
                v6, n, placement, world_seed, info_hash, searcher_id, contacts, peers, lat, read_only, announce_port, announce, rt_seed,
            })
            .boxed()
    }
    fn run(&self, c: &Case) -> Outcome {
        let rt = paused_rt(c.rt_seed);
        rt.block_on(async {
            let h = id_of(&c.info_hash);
            let sid = id_of(&c.searcher_id);
            let n = c.n as usize;
            // world
            let mut used: HashSet<Id> = HashSet::new();
            used.insert(sid);
            let mut world: Vec<(Id, SocketAddr)> = vec![];
            for i in 0..n {
                let seed = splitmix(c.world_seed ^ (i as u64) << 20);
                let mut id = match &c.placement {
                    Placement::Uniform => rand_id(seed),
                    Placement::AroundTarget { bits } => clustered_id(&h, *bits as usize, seed),
                    Placement::AroundSearcher { bits } => clustered_id(&sid, *bits as usize, seed),
                    Placement::Mixed { bits } => clustered_id(if i % 2 == 0 { &h } else { &sid }, *bits as usize, seed),
                };
                let mut bump = 0u8;
                while !used.insert(id) {
                    bump += 1;
                    id[19] = id[19].wrapping_add(bump);
                    id[18] ^= bump;
                }
                world.push((id, fam_addr(c.v6, 100 + i as u16, 7000 + (i % 50) as u16)));
            }
            let mut peers: Vec<Vec<SocketAddr>> = vec![vec![]; n];
            for (who, count, seed) in &c.peers {
                let i = *who as usize % n;
                for k in 0..*count {
                    // both families, duplicates across puppets on purpose (few distinct seeds)
                    let v6 = (seed.wrapping_add(k)) % 3 == 0;
                    peers[i].push(fam_addr(v6, 5000 + (*seed as u16 % 7) * 10 + k as u16, 2000 + k as u16));
                }
            }
            let world = Arc::new(world);
            let peers = Arc::new(peers);
            let net = SimNet::new(Box::new(RttBudget::new(c.lat.clone(), 999)));
            let rec = Arc::new(Mutex::new(WorldRecord::default()));
            spawn_omniscient(&net, world.clone(), peers.clone(), Arc::new(vec![]), Arc::new(|_, _| 0), rec.clone());
            let node = fam_addr(c.v6, 1, 6881);
            let mut contacts: Vec<SocketAddr> = c.contacts.iter().map(|k| world[*k as usize % n].1).collect();
            contacts.sort();
            contacts.dedup();
            let dht = start_node(&net, &NodeCfg { addr: node, id: sid, read_only: c.read_only, nodes: contacts, routers: vec![], announce_port: c.announce_port });
            if within(Duration::from_secs(600), dht.bootstrapped()).await != Some(true) {
                return Outcome::violation("setup-not-bootstrapped", "searcher did not bootstrap within 600 s against answering contacts");
            }
            let t_search = net.now_ms();
            let mut stream = dht.search(InfoHash::from(h), c.announce);
            let mut yielded: Vec<SocketAddr> = vec![];
            let done = within(Duration::from_secs(300), async {
                while let Some(a) = stream.next().await {
                    yielded.push(a);
                }
            })
            .await;
            if done.is_none() {
                return Outcome::violation("search-does-not-end", "stream still open 300 s after the search started");
            }
            let t_end = net.now_ms();
            tokio::time::sleep(Duration::from_millis(1100)).await; // let announces arrive
            let log = net.log();
            let obs = observe_searches(&log, node, &h);
            let obs: Vec<&SearchObs> = obs.iter().filter(|o| o.get_peers.iter().any(|g| g.0 >= t_search) || o.announces.iter().any(|a| a.0 >= t_search)).collect();
            if obs.len() > 1 {
                return Outcome::violation("several-prefixes-for-one-search", format!("{} activity prefixes used for one search", obs.len()));
            }
            let Some(o) = obs.first() else {
                return Outcome::violation("search-sent-nothing", format!("the search ended after {} ms without sending any get_peers although the node is bootstrapped (world of {n})", t_end - t_search));
            };
            // --- announces
            let expected: Vec<usize> = closest(&world, &h, 8, None);
            let exp_addrs: HashSet<SocketAddr> = expected.iter().map(|i| world[*i].1).collect();
            if !c.announce {
                if let Some(a) = o.announces.first() {
                    return Outcome::violation("announce-although-not-requested", format!("announce_peer sent to {}", a.1));
                }
            } else {
                let got: Vec<SocketAddr> = o.announces.iter().map(|a| a.1).collect();
                let got_set: HashSet<SocketAddr> = got.iter().copied().collect();
                if got.len() != got_set.len() {
                    return Outcome::violation("announce-sent-twice", format!("announce targets {got:?}"));
                }
                if got_set != exp_addrs {
                    let missing: Vec<&SocketAddr> = exp_addrs.difference(&got_set).collect();
                    let extra: Vec<&SocketAddr> = got_set.difference(&exp_addrs).collect();
                    let kind = if got.len() < exp_addrs.len() { "announce-misses-closest-node" } else if got.len() > exp_addrs.len() { "too-many-announces" } else { "announce-to-wrong-nodes" };
                    return Outcome::violation(kind, format!("world of {n}: announced to {} nodes; of the {} closest nodes missing {missing:?}; not among the closest {extra:?}", got.len(), exp_addrs.len()));
                }
                for (t, to, token, ih, port, id) in &o.announces {
                    if ih[..] != h[..] {
                        return Outcome::violation("announce-wrong-info-hash", format!("to {to}: {}", hex(ih)));
                    }
                    if id[..] != sid[..] {
                        return Outcome::violation("announce-wrong-id", format!("to {to}: id {}", hex(id)));
                    }
                    if *port != c.announce_port {
                        return Outcome::violation("announce-wrong-port", format!("to {to}: port field {port:?}, configured {:?}", c.announce_port));
                    }
                    // the token of the answer from that node delivered last before the announce
                    let last = o.responses.iter().filter(|r| r.1 == *to && r.0 <= *t && r.3.token.is_some()).last();
                    match last {
                        Some(r) if r.3.token.as_deref() == Some(&token[..]) => {}
                        Some(r) => {
                            let issued_by_it = o.responses.iter().any(|x| x.1 == *to && x.3.token.as_deref() == Some(&token[..]));
                            return Outcome::violation(
                                if issued_by_it { "announce-with-stale-token" } else { "announce-with-foreign-token" },
                                format!("announce to {to} carries token {} but the last answer from it carried {}", hex(token), hex(r.3.token.as_ref().unwrap())),
                            );
                        }
                        None => return Outcome::violation("announce-without-token", format!("announce to {to} although no answer with a token from it was delivered")),
                    }
                }
            }
            // --- stream: multiset union of the values of all delivered answers
            let mut want: BTreeMap<SocketAddr, i64> = BTreeMap::new();
            for r in &o.responses {
                for v in &r.3.values {
                    *want.entry(*v).or_insert(0) += 1;
                }
            }
            let mut got: BTreeMap<SocketAddr, i64> = BTreeMap::new();
            for v in &yielded {
                *got.entry(*v).or_insert(0) += 1;
            }
            if want != got {
                let kind = if got.iter().any(|(k, n)| want.get(k).copied().unwrap_or(0) < *n) { "stream-yields-more-than-answers-contain" } else { "stream-misses-peers" };
                let diff: Vec<String> = want.iter().filter(|(k, n)| got.get(*k).copied().unwrap_or(0) != **n).take(4).map(|(k, n)| format!("{k}: answers {n}, stream {}", got.get(k).copied().unwrap_or(0))).collect();
                return Outcome::violation(kind, format!("{} answers delivered; stream yielded {} items, answers contain {}; e.g. {diff:?}", o.responses.len(), yielded.len(), want.values().sum::<i64>()));
            }
            let second_round = o.get_peers.len() > 4;
            Outcome::pass(n >= 9 && second_round)
                .label(match n { 1..=8 => "n<=8", 9..=20 => "n:9-20", 21..=200 => "n:21-200", _ => "n:1000" })
                .label(if c.announce { "announce" } else { "no-announce" })
        })
    }
    fn rule(&self) -> String {
        "worlds of 1..20 (70 %), 21..200 or 1000 omniscient scripted nodes (answering get_peers/find_node with the truly closest <= 8 nodes, a fresh unique token and their peer set: 0..6 addresses of both families, duplicated across nodes) with ids uniform, clustered around the info-hash, around the searcher's id, or mixed (0..156 shared prefix bits); one real searcher (read-only or serving, announce port none/some) bootstrapped against 1..8 of them; per-datagram latencies 0..999 ms with every query->answer round trip < 1 s; search with (80 %) or without announce. Oracle from the wire log: announce_peer destinations = the min(8, N) nodes XOR-closest to the info-hash (computed over the whole world), each once, with the token of that node's answer delivered last, the info-hash, the searcher's id and the configured port / implied port; none without announce; stream multiset = multiset union of values of all answers delivered to the search. Non-trivial: N >= 9 and the search went beyond its first 4 queries".into()
    }
    fn sample(&self, c: &Case) -> serde_json::Value {
        serde_json::json!({"n": c.n, "placement": format!("{:?}", c.placement), "contacts": c.contacts.len(), "announce": c.announce, "read_only": c.read_only, "announce_port": c.announce_port, "peers": c.peers.len()})
    }
}

pub fn spec() -> PropertySpec {
    PropertySpec {
        id: "C02",
        stages: vec![Box::new(Reach)],
        assumptions: vec![
            "Scripted nodes never name the searcher itself and always answer (benign network: every round trip < 1 s).".into(),
            "'Closest' is computed by the harness over the whole generated world, independently of the searcher's routing table.".into(),
        ],
        explanation: "Oracle: set equality of announce targets with the independently computed closest nodes, field checks on every announce_peer, multiset equality of the stream with the answers' values.".into(),
    }
}
