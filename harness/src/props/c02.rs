//! C02 — a search reaches the 8 closest nodes, announces to them, yields every peer found.

use super::searchworld::*;
use super::single::fam_addr;
use crate::bcodec::*;
use crate::engine::*;
use crate::sim::*;
use crate::world::*;
use btdht::InfoHash;
use futures_util::StreamExt;
use proptest::collection::vec;
use proptest::prelude::*;
use serde::{Deserialize, Serialize};
use std::collections::{BTreeMap, HashSet};
use std::net::SocketAddr;
use std::sync::{Arc, Mutex};
use std::time::Duration;

#[derive(Clone, Debug, Serialize, Deserialize)]
pub enum Placement {
    Uniform,
    /// ids share `bits` leading bits with the info-hash
    AroundTarget { bits: u8 },
    /// ids share `bits` leading bits with the searcher's id
    AroundSearcher { bits: u8 },
    /// half and half
    Mixed { bits: u8 },
}

#[derive(Clone, Debug, Serialize, Deserialize)]
pub struct Case {
    v6: bool,
    n: u16,
    placement: Placement,
    world_seed: u64,
    #[serde(with = "hexser")]
    info_hash: Vec<u8>,
    #[serde(with = "hexser")]
    searcher_id: Vec<u8>,
    /// indices (mod n) of the bootstrap contacts
    contacts: Vec<u16>,
    /// peers held by puppet (index mod n): (count, seed)
    peers: Vec<(u16, u8, u8)>,
    lat: Vec<u16>,
    read_only: bool,
    announce_port: Option<u16>,
    announce: bool,
    rt_seed: u64,
    /// scripted nodes answer from Kademlia-like limited knowledge (8 nearest nodes per shared
    /// prefix length) instead of knowing the whole world: searches need several hops
    #[serde(default)]
    limited: bool,
}

pub struct Reach;

impl Stage for Reach {
    type Case = Case;
    fn name(&self) -> &'static str {
        "search"
    }
    fn cases(&self, tier: Tier) -> u32 {
        tier.pick(12000, 400000)
    }
    fn watchdog_secs(&self, tier: Tier) -> u64 {
        tier.pick(600, 1800)
    }
    fn strategy(&self, tier: Tier) -> BoxedStrategy<Case> {
        let big = tier.pick(1u32, 3u32);
        let placement = prop_oneof![
            3 => Just(Placement::Uniform),
            3 => (0u8..=156).prop_map(|bits| Placement::AroundTarget { bits }),
            2 => (0u8..=156).prop_map(|bits| Placement::AroundSearcher { bits }),
            2 => (0u8..=150).prop_map(|bits| Placement::Mixed { bits }),
        ];
        (
            (any::<bool>(), prop_oneof![70 => 1u16..=20, 25 => 21u16..=200, big => Just(1000u16)], placement, any::<u64>()),
            (super::c13::id20(), super::c13::id20()),
            vec(any::<u16>(), 1..=8),
            vec((any::<u16>(), 0u8..=6, any::<u8>()), 0..12),
            vec(prop_oneof![Just(0u16), 0u16..100, 0u16..999], 1..64),
            (any::<bool>(), proptest::option::of(1u16..), prop::bool::weighted(0.8), any::<u64>()),
        )
            .prop_map(|((v6, n, placement, world_seed), (info_hash, searcher_id), contacts, peers, lat, (read_only, announce_port, announce, rt_seed))| Case {
                v6, n, placement, world_seed, info_hash, searcher_id, contacts, peers, lat, read_only, announce_port, announce, rt_seed, limited: false,
            })
            .boxed()
    }
    fn run(&self, c: &Case) -> Outcome {
        run_case(c)
    }
    fn rule(&self) -> String {
        RULE.into()
    }
    fn sample(&self, c: &Case) -> serde_json::Value {
        sample_of(c)
    }
}

fn sample_of(c: &Case) -> serde_json::Value {
    serde_json::json!({"n": c.n, "placement": format!("{:?}", c.placement), "contacts": c.contacts.len(), "announce": c.announce, "read_only": c.read_only, "announce_port": c.announce_port, "peers": c.peers.len(), "limited": c.limited})
}

fn run_case(c: &Case) -> Outcome {
    {
        let rt = paused_rt(c.rt_seed);
        rt.block_on(async {
            let h = id_of(&c.info_hash);
            let sid = id_of(&c.searcher_id);
            let n = c.n as usize;
            // world
            let mut used: HashSet<Id> = HashSet::new();
            used.insert(sid);
            let mut world: Vec<(Id, SocketAddr)> = vec![];
            for i in 0..n {
                let seed = splitmix(c.world_seed ^ (i as u64) << 20);
                let mut id = match &c.placement {
                    Placement::Uniform => rand_id(seed),
                    Placement::AroundTarget { bits } => clustered_id(&h, *bits as usize, seed),
                    Placement::AroundSearcher { bits } => clustered_id(&sid, *bits as usize, seed),
                    Placement::Mixed { bits } => clustered_id(if i % 2 == 0 { &h } else { &sid }, *bits as usize, seed),
                };
                let mut bump = 0u8;
                while !used.insert(id) {
                    bump += 1;
                    id[19] = id[19].wrapping_add(bump);
                    id[18] ^= bump;
                }
                world.push((id, fam_addr(c.v6, 100 + i as u16, 7000 + (i % 50) as u16)));
            }
            let mut peers: Vec<Vec<SocketAddr>> = vec![vec![]; n];
            for (who, count, seed) in &c.peers {
                let i = *who as usize % n;
                for k in 0..*count {
                    // both families, duplicates across puppets on purpose (few distinct seeds)
                    let v6 = (seed.wrapping_add(k)) % 3 == 0;
                    peers[i].push(fam_addr(v6, 5000 + (*seed as u16 % 7) * 10 + k as u16, 2000 + k as u16));
                }
            }
            let world = Arc::new(world);
            let peers = Arc::new(peers);
            let net = SimNet::new(Box::new(RttBudget::new(c.lat.clone(), 999)));
            let rec = Arc::new(Mutex::new(WorldRecord::default()));
            if c.limited {
                let knowledge = Arc::new(kademlia_knowledge(&world));
                spawn_limited(&net, world.clone(), knowledge, peers.clone(), rec.clone());
            } else {
                spawn_omniscient(&net, world.clone(), peers.clone(), Arc::new(vec![]), Arc::new(|_, _| 0), rec.clone());
            }
            let node = fam_addr(c.v6, 1, 6881);
            let mut contacts: Vec<SocketAddr> = c.contacts.iter().map(|k| world[*k as usize % n].1).collect();
            contacts.sort();
            contacts.dedup();
            let dht = start_node(&net, &NodeCfg { addr: node, id: sid, read_only: c.read_only, nodes: contacts, routers: vec![], announce_port: c.announce_port });
            if within(Duration::from_secs(600), dht.bootstrapped()).await != Some(true) {
                return Outcome::violation("setup-not-bootstrapped", "searcher did not bootstrap within 600 s against answering contacts");
            }
            let t_search = net.now_ms();
            let mut stream = dht.search(InfoHash::from(h), c.announce);
            let mut yielded: Vec<SocketAddr> = vec![];
            let done = within(Duration::from_secs(300), async {
                while let Some(a) = stream.next().await {
                    yielded.push(a);
                }
            })
            .await;
            if done.is_none() {
                return Outcome::violation("search-does-not-end", "stream still open 300 s after the search started");
            }
            let t_end = net.now_ms();
            tokio::time::sleep(Duration::from_millis(1100)).await; // let announces arrive
            let log = net.log();
            let obs = observe_searches(&log, node, &h);
            let obs: Vec<&SearchObs> = obs.iter().filter(|o| o.get_peers.iter().any(|g| g.0 >= t_search) || o.announces.iter().any(|a| a.0 >= t_search)).collect();
            if obs.len() > 1 {
                return Outcome::violation("several-prefixes-for-one-search", format!("{} activity prefixes used for one search", obs.len()));
            }
            let Some(o) = obs.first() else {
                return Outcome::violation("search-sent-nothing", format!("the search ended after {} ms without sending any get_peers although the node is bootstrapped (world of {n})", t_end - t_search));
            };
            // --- announces
            let exp_addrs: HashSet<SocketAddr> = if c.limited {
                // limited knowledge: the 8 closest among the nodes that answered this search with
                // a token before it ended (everything the searcher can know)
                let by_addr: std::collections::HashMap<SocketAddr, Id> = world.iter().map(|w| (w.1, w.0)).collect();
                let mut resp: Vec<SocketAddr> = o.responses.iter().filter(|r| r.0 <= t_end && r.3.token.is_some() && by_addr.contains_key(&r.1)).map(|r| r.1).collect();
                resp.sort();
                resp.dedup();
                resp.sort_by_key(|a| xor_dist(&by_addr[a], &h));
                resp.truncate(8);
                resp.into_iter().collect()
            } else {
                closest(&world, &h, 8, None).iter().map(|i| world[*i].1).collect()
            };
            if !c.announce {
                if let Some(a) = o.announces.first() {
                    return Outcome::violation("announce-although-not-requested", format!("announce_peer sent to {}", a.1));
                }
            } else {
                let got: Vec<SocketAddr> = o.announces.iter().map(|a| a.1).collect();
                let got_set: HashSet<SocketAddr> = got.iter().copied().collect();
                if got.len() != got_set.len() {
                    return Outcome::violation("announce-sent-twice", format!("announce targets {got:?}"));
                }
                if got_set != exp_addrs {
                    let missing: Vec<&SocketAddr> = exp_addrs.difference(&got_set).collect();
                    let extra: Vec<&SocketAddr> = got_set.difference(&exp_addrs).collect();
                    let kind = if got.len() < exp_addrs.len() { "announce-misses-closest-node" } else if got.len() > exp_addrs.len() { "too-many-announces" } else { "announce-to-wrong-nodes" };
                    return Outcome::violation(kind, format!("world of {n}: announced to {} nodes; of the {} closest nodes missing {missing:?}; not among the closest {extra:?}", got.len(), exp_addrs.len()));
                }
                for (t, to, token, ih, port, id) in &o.announces {
                    if ih[..] != h[..] {
                        return Outcome::violation("announce-wrong-info-hash", format!("to {to}: {}", hex(ih)));
                    }
                    if id[..] != sid[..] {
                        return Outcome::violation("announce-wrong-id", format!("to {to}: id {}", hex(id)));
                    }
                    if *port != c.announce_port {
                        return Outcome::violation("announce-wrong-port", format!("to {to}: port field {port:?}, configured {:?}", c.announce_port));
                    }
                    // the token of the answer from that node delivered last before the announce
                    let last = o.responses.iter().filter(|r| r.1 == *to && r.0 <= *t && r.3.token.is_some()).last();
                    match last {
                        Some(r) if r.3.token.as_deref() == Some(&token[..]) => {}
                        Some(r) => {
                            let issued_by_it = o.responses.iter().any(|x| x.1 == *to && x.3.token.as_deref() == Some(&token[..]));
                            return Outcome::violation(
                                if issued_by_it { "announce-with-stale-token" } else { "announce-with-foreign-token" },
                                format!("announce to {to} carries token {} but the last answer from it carried {}", hex(token), hex(r.3.token.as_ref().unwrap())),
                            );
                        }
                        None => return Outcome::violation("announce-without-token", format!("announce to {to} although no answer with a token from it was delivered")),
                    }
                }
            }
            // --- stream: multiset union of the values of all delivered answers
            let mut want: BTreeMap<SocketAddr, i64> = BTreeMap::new();
            for r in &o.responses {
                for v in &r.3.values {
                    *want.entry(*v).or_insert(0) += 1;
                }
            }
            let mut got: BTreeMap<SocketAddr, i64> = BTreeMap::new();
            for v in &yielded {
                *got.entry(*v).or_insert(0) += 1;
            }
            if want != got {
                let kind = if got.iter().any(|(k, n)| want.get(k).copied().unwrap_or(0) < *n) { "stream-yields-more-than-answers-contain" } else { "stream-misses-peers" };
                let diff: Vec<String> = want.iter().filter(|(k, n)| got.get(*k).copied().unwrap_or(0) != **n).take(4).map(|(k, n)| format!("{k}: answers {n}, stream {}", got.get(k).copied().unwrap_or(0))).collect();
                return Outcome::violation(kind, format!("{} answers delivered; stream yielded {} items, answers contain {}; e.g. {diff:?}", o.responses.len(), yielded.len(), want.values().sum::<i64>()));
            }
            let second_round = o.get_peers.len() > 4;
            let distinct_asked: HashSet<SocketAddr> = o.get_peers.iter().map(|g| g.1).collect();
            let heard: HashSet<SocketAddr> = o.responses.iter().flat_map(|r| r.3.nodes.iter().map(|x| SocketAddr::V4(x.1)).chain(r.3.nodes6.iter().map(|x| SocketAddr::V6(x.1)))).collect();
            Outcome::pass(if c.limited { heard.len() > 64 } else { n >= 9 && second_round })
                .label(match n { 1..=8 => "n<=8", 9..=20 => "n:9-20", 21..=200 => "n:21-200", _ => "n:>200" })
                .label(if c.announce { "announce" } else { "no-announce" })
                .label(match distinct_asked.len() { 0..=8 => "asked<=8", 9..=64 => "asked:9-64", _ => "asked>64" })
                .label(if heard.len() > 64 { "heard>64" } else { "heard<=64" })
        })
    }
}

const RULE: &str = "worlds of 1..20 (70 %), 21..200 or 1000 omniscient scripted nodes (answering get_peers/find_node with the truly closest <= 8 nodes, a fresh unique token and their peer set: 0..6 addresses of both families, duplicated across nodes) with ids uniform, clustered around the info-hash, around the searcher's id, or mixed (0..156 shared prefix bits); one real searcher (read-only or serving, announce port none/some) bootstrapped against 1..8 of them; per-datagram latencies 0..999 ms with every query->answer round trip < 1 s; search with (80 %) or without announce. Oracle from the wire log: announce_peer destinations = the min(8, N) nodes XOR-closest to the info-hash (computed over the whole world), each once, with the token of that node's answer delivered last, the info-hash, the searcher's id and the configured port / implied port; none without announce; stream multiset = multiset union of values of all answers delivered to the search. Non-trivial: N >= 9 and the search went beyond its first 4 queries";

pub struct BigWorld;

impl Stage for BigWorld {
    type Case = Case;
    fn name(&self) -> &'static str {
        "big-world"
    }
    fn cases(&self, tier: Tier) -> u32 {
        tier.pick(200, 6000)
    }
    fn watchdog_secs(&self, tier: Tier) -> u64 {
        tier.pick(600, 1800)
    }
    fn strategy(&self, _t: Tier) -> BoxedStrategy<Case> {
        (
            (any::<bool>(), prop_oneof![1 => 300u16..700, 4 => 700u16..1500], any::<u64>()),
            (super::c13::id20(), super::c13::id20()),
            vec(any::<u16>(), 1..=8),
            vec((any::<u16>(), 0u8..=6, any::<u8>()), 0..12),
            vec(prop_oneof![Just(0u16), 0u16..100, 0u16..999], 1..64),
            (any::<bool>(), proptest::option::of(1u16..), any::<u64>()),
        )
            .prop_map(|((v6, n, world_seed), (info_hash, searcher_id), contacts, peers, lat, (read_only, announce_port, rt_seed))| Case {
                v6, n, placement: Placement::Uniform, world_seed, info_hash, searcher_id, contacts, peers, lat, read_only, announce_port, announce: true, rt_seed, limited: true,
            })
            .boxed()
    }
    fn run(&self, c: &Case) -> Outcome {
        run_case(c)
    }
    fn rule(&self) -> String {
        "worlds of 300..1500 scripted nodes with uniform ids that answer from Kademlia-like limited knowledge (for every shared-prefix length the 8 nodes nearest to themselves), so that a search takes several hops and hears of far more than 64 nodes before it hears of the closest ones; otherwise as the search stage (latencies, peers, read-only, ports), always with announce. Oracle: announce_peer destinations = the 8 nodes XOR-closest to the info-hash among all nodes that answered this search with a token before it ended, each once, with the right token / info-hash / id / port; stream multiset = union of the delivered answers' values. Non-trivial: the answers to the search named more than 64 distinct nodes".into()
    }
    fn sample(&self, c: &Case) -> serde_json::Value {
        sample_of(c)
    }
}

pub fn spec() -> PropertySpec {
    PropertySpec {
        id: "C02",
        stages: vec![Box::new(Reach), Box::new(BigWorld)],
        assumptions: vec![
            "Scripted nodes never name the searcher itself and always answer (benign network: every round trip < 1 s).".into(),
            "'Closest' is computed by the harness over the whole generated world, independently of the searcher's routing table.".into(),
        ],
        explanation: "Oracle: set equality of announce targets with the independently computed closest nodes, field checks on every announce_peer, multiset equality of the stream with the answers' values.".into(),
    }
}
