//! C01 — announced peers are found by every other node's search (end to end, real nodes only).

use super::searchworld::{clustered_id, rand_id};
use super::single::fam_addr;
use crate::bcodec::Id;
use crate::engine::*;
use crate::sim::*;
use crate::world::*;
use btdht::{InfoHash, MainlineDht};
use futures_util::StreamExt;
use proptest::collection::vec;
use proptest::prelude::*;
use serde::{Deserialize, Serialize};
use std::net::SocketAddr;
use std::sync::{Arc, Mutex};
use std::time::Duration;

const DAY: u64 = 86_400_000;
/// announce_peer datagrams are sent when the announcing search ends and are delivered within 1 s
const ANNOUNCE_MARGIN: u64 = 1_100;

#[derive(Clone, Debug, Serialize, Deserialize)]
pub struct Evt {
    gap_ms: u64,
    announce: bool,
    node: u8,
    hash: u8,
    /// do not wait for this operation to finish before scheduling the next one
    overlap: bool,
}

#[derive(Clone, Debug, Serialize, Deserialize)]
pub struct Case {
    v6: bool,
    /// per node: (id seed, announce port)
    nodes: Vec<(u64, Option<u16>)>,
    /// 0 = uniform ids; otherwise ids share this many leading bits with the first info-hash
    cluster_bits: u8,
    lat: Vec<u16>,
    /// unordered node pairs between which every datagram takes 750..999 ms (round trips of
    /// 1.5..2 s, i.e. beyond the query timeout); all other pairs keep round trips < 1.5 s
    #[serde(default)]
    slow_pairs: Vec<(u8, u8)>,
    events: Vec<Evt>,
    rt_seed: u64,
}

struct SlowPolicy {
    fast: RttBudget,
    slow: std::collections::HashSet<(SocketAddr, SocketAddr)>,
}

impl Policy for SlowPolicy {
    fn fate(&mut self, d: &Dgram) -> Fate {
        if self.slow.contains(&(d.from, d.to)) {
            let h = crate::engine::splitmix((d.seq as u64) << 20 ^ d.from.port() as u64 ^ (d.to.port() as u64) << 8);
            Fate::Deliver(vec![Duration::from_millis(750 + h % 250)])
        } else {
            self.fast.fate(d)
        }
    }
}

pub struct EndToEnd {
    pub long: bool,
}

fn hash_n(h: u8) -> Id {
    let mut x = [0x5au8; 20];
    x[0] = h.wrapping_mul(0x3b) ^ 0x77;
    x[9] = h;
    x
}

#[derive(Clone, Debug)]
struct OpRec {
    announce: bool,
    node: usize,
    hash: u8,
    start: u64,
    end: Option<u64>,
    found: Vec<SocketAddr>,
}

fn gap(long: bool) -> BoxedStrategy<u64> {
    if long {
        prop_oneof![
            3 => 1_200u64..60_000,
            2 => 60_000u64..3_600_000,
            3 => (60_000u64..7_200_000).prop_map(|d| DAY - d),
            3 => (61_000u64..7_200_000).prop_map(|d| DAY + d),
            1 => 3_600_000u64..12 * 3_600_000,
        ]
        .boxed()
    } else {
        prop_oneof![5 => 1_200u64..60_000, 2 => 0u64..1_200, 2 => 60_000u64..600_000, 1 => 600_000u64..3_600_000].boxed()
    }
}

impl Stage for EndToEnd {
    type Case = Case;
    fn name(&self) -> &'static str {
        if self.long {
            "days"
        } else {
            "hours"
        }
    }
    fn cases(&self, tier: Tier) -> u32 {
        if self.long {
            tier.pick(10, 96)
        } else {
            tier.pick(320, 6000)
        }
    }
    fn watchdog_secs(&self, tier: Tier) -> u64 {
        tier.pick(1500, 7200)
    }
    fn strategy(&self, tier: Tier) -> BoxedStrategy<Case> {
        let long = self.long;
        let max_n: usize = if long { tier.pick(4, 9) } else { 9 };
        let max_ev = if long { 6 } else { 10 };
        (2usize..=max_n)
            .prop_flat_map(move |n| {
                let evt = (gap(long), prop::bool::weighted(0.45), 0u8..n as u8, 0u8..2, prop::bool::weighted(0.3))
                    .prop_map(|(gap_ms, announce, node, hash, overlap)| Evt { gap_ms, announce, node, hash, overlap });
                (
                    any::<bool>(),
                    vec((any::<u64>(), proptest::option::of(1u16..)), n),
                    prop_oneof![2 => Just(0u8), 1 => 1u8..152],
                    vec(prop_oneof![Just(0u16), 0u16..100, 0u16..999], 1..64),
                    vec(evt, 2..=max_ev),
                    any::<u64>(),
                    prop_oneof![2 => Just(vec![]), 1 => vec((0u8..n as u8, 0u8..n as u8), 1..(2 * n))],
                )
            })
            .prop_map(move |(v6, nodes, cluster_bits, lat, mut events, rt_seed, slow_pairs)| {
                // every history starts with an announce so that there is something to find
                events[0].announce = true;
                if long && rt_seed % 5 < 2 {
                    // structured schedule around renewal and expiry with several announcers: A
                    // announces, B announces, A re-announces within 24 h, somebody searches when
                    // B's 24 h are over but A's are not; the free-form tail follows
                    let n = nodes.len() as u8;
                    let r = |k: u64| crate::engine::splitmix(rt_seed ^ k);
                    let (a, b) = (r(1) as u8 % n, (r(1) as u8 % n + 1 + r(2) as u8 % (n - 1).max(1)) % n);
                    let c = r(3) as u8 % n;
                    let h = (r(4) % 2) as u8;
                    let g1 = 3_600_000 + r(5) % (19 * 3_600_000);
                    let g2 = DAY - g1 + 125_000 + r(6) % 7_000_000;
                    let mut t = vec![
                        Evt { gap_ms: 1_200 + r(7) % 50_000, announce: true, node: a, hash: h, overlap: false },
                        Evt { gap_ms: 1_200 + r(8) % 3_600_000, announce: true, node: b, hash: h, overlap: r(9) % 4 == 0 },
                        Evt { gap_ms: g1, announce: true, node: a, hash: h, overlap: false },
                        Evt { gap_ms: g2, announce: false, node: c, hash: h, overlap: r(10) % 3 == 0 },
                        Evt { gap_ms: 1_200 + r(11) % 60_000, announce: false, node: (c + 1) % n, hash: h, overlap: false },
                    ];
                    events.truncate(2);
                    t.extend(events);
                    events = t;
                }
                Case { v6, nodes, cluster_bits, lat, slow_pairs, events, rt_seed }
            })
            .boxed()
    }
    fn run(&self, c: &Case) -> Outcome {
        let rt = paused_rt(c.rt_seed);
        rt.block_on(async {
            let n = c.nodes.len();
            let addrs: Vec<SocketAddr> = (0..n).map(|i| fam_addr(c.v6, 10 + i as u16, 6881 + i as u16)).collect();
            let mut slow = std::collections::HashSet::new();
            let mut slow_idx = std::collections::HashSet::new();
            for (a, b) in &c.slow_pairs {
                let (a, b) = (*a as usize % n, *b as usize % n);
                if a != b {
                    slow.insert((addrs[a], addrs[b]));
                    slow.insert((addrs[b], addrs[a]));
                    slow_idx.insert((a.min(b), a.max(b)));
                }
            }
            let is_slow = |x: usize, y: usize| slow_idx.contains(&(x.min(y), x.max(y)));
            let net = SimNet::new(Box::new(SlowPolicy { fast: RttBudget::new(c.lat.clone(), 1490), slow }));
            net.set_logging(false);
            let mut dhts: Vec<MainlineDht> = vec![];
            for i in 0..n {
                let id = if c.cluster_bits == 0 { rand_id(c.nodes[i].0) } else { clustered_id(&hash_n(0), c.cluster_bits as usize, c.nodes[i].0) };
                let mut id = id;
                id[19] = i as u8; // distinct
                let others: Vec<SocketAddr> = addrs.iter().enumerate().filter(|(j, _)| *j != i).map(|(_, a)| *a).collect();
                dhts.push(start_node(&net, &NodeCfg { addr: addrs[i], id, read_only: false, nodes: others, routers: vec![], announce_port: c.nodes[i].1 }));
            }
            for (i, d) in dhts.iter().enumerate() {
                if within(Duration::from_secs(600), d.bootstrapped()).await != Some(true) {
                    return Outcome::violation("not-bootstrapped", format!("node {i} of {n} did not report bootstrapped within 600 s on a loss-free network"));
                }
            }
            let t_base = net.now_ms();
            let ops: Arc<Mutex<Vec<OpRec>>> = Default::default();
            let mut pending = vec![];
            for e in &c.events {
                tokio::time::sleep(Duration::from_millis(e.gap_ms)).await;
                let node = e.node as usize % n;
                let idx = {
                    let mut o = ops.lock().unwrap();
                    o.push(OpRec { announce: e.announce, node, hash: e.hash, start: net.now_ms(), end: None, found: vec![] });
                    o.len() - 1
                };
                let dht = dhts[node].clone();
                let ops2 = ops.clone();
                let net2 = net.clone();
                let (announce, hash) = (e.announce, e.hash);
                let h = tokio::spawn(async move {
                    let mut s = dht.search(InfoHash::from(hash_n(hash)), announce);
                    let mut found = vec![];
                    while let Some(a) = s.next().await {
                        found.push(a);
                    }
                    let mut o = ops2.lock().unwrap();
                    o[idx].end = Some(net2.now_ms());
                    o[idx].found = found;
                });
                if e.overlap {
                    pending.push(h);
                } else if within(Duration::from_secs(600), h).await.is_none() {
                    return Outcome::violation("search-does-not-end", format!("operation #{idx} ({}) on node {node} still running after 600 s", if e.announce { "announce" } else { "search" }));
                }
            }
            for h in pending {
                if within(Duration::from_secs(600), h).await.is_none() {
                    return Outcome::violation("search-does-not-end", "an overlapping operation is still running after 600 s");
                }
            }
            let ops = ops.lock().unwrap().clone();
            let contact = |a: usize| -> SocketAddr { SocketAddr::new(addrs[a].ip(), c.nodes[a].1.unwrap_or(addrs[a].port())) };
            let mut must_find = 0;
            let mut must_not = 0;
            let mut overlapped = false;
            for (si, s) in ops.iter().enumerate() {
                let s_end = s.end.unwrap();
                if ops.iter().enumerate().any(|(j, o)| j != si && o.start < s_end && s.start < o.end.unwrap()) {
                    overlapped = true;
                }
                for a in 0..n {
                    if a == s.node {
                        continue;
                    }
                    let anns: Vec<&OpRec> = ops.iter().filter(|o| o.announce && o.node == a && o.hash == s.hash).collect();
                    if anns.is_empty() {
                        continue;
                    }
                    let addr = contact(a);
                    let has = s.found.contains(&addr);
                    // with slow pairs the guarantee needs a third node that both the announcer and
                    // the searcher reach within the query timeout
                    let witness = slow_idx.is_empty() || (0..n).any(|x| x != a && x != s.node && !is_slow(a, x) && !is_slow(s.node, x));
                    let must = witness && anns.iter().any(|o| o.end.unwrap() + ANNOUNCE_MARGIN <= s.start && s_end <= o.end.unwrap() + DAY - 60_000);
                    let must_not_find = anns.iter().all(|o| o.end.unwrap() + DAY + 60_000 <= s.start || o.start > s_end);
                    if must {
                        must_find += 1;
                        if !has {
                            let last = anns.iter().map(|o| o.end.unwrap()).filter(|e| *e + ANNOUNCE_MARGIN <= s.start).max().unwrap();
                            return Outcome::violation(
                                "announced-peer-not-found",
                                format!(
                                    "network of {n}: node {} searched hash {} from t={} to {} ms (relative {}), node {a}'s announcing search had ended {} ms earlier, but the stream ({} items: {:?}) lacks {addr}",
                                    s.node, s.hash, s.start, s_end, s.start.saturating_sub(t_base), s.start.saturating_sub(last), s.found.len(), s.found.iter().take(6).collect::<Vec<_>>()
                                ),
                            );
                        }
                        if c.nodes[a].1.is_some() && s.found.contains(&addrs[a]) && addrs[a] != addr {
                            return Outcome::violation("source-port-instead-of-announce-port", format!("search lists {} although node {a} announces port {:?}", addrs[a], c.nodes[a].1));
                        }
                    } else if must_not_find {
                        must_not += 1;
                        if has {
                            let last = anns.iter().map(|o| o.end.unwrap()).filter(|e| *e <= s.start).max().unwrap_or(0);
                            return Outcome::violation("expired-peer-still-found", format!("network of {n}: node {}'s search at t={} ms still yields {addr}; node {a}'s last announce ended {} ms earlier (> 24 h)", s.node, s.start, s.start.saturating_sub(last)));
                        }
                    }
                }
            }
            let nt = if self.long { must_find >= 1 && must_not >= 1 } else { n >= 3 && must_find >= 1 && overlapped };
            Outcome::pass(nt).label(format!("n:{n}")).label(if must_not > 0 { "expiry-asserted" } else { "no-expiry-asserted" }).label(if slow_idx.is_empty() { "all-fast" } else { "slow-pairs" })
        })
    }
    fn rule(&self) -> String {
        let span = if self.long {
            "2..6 operations separated by gaps from {1.2..60 s, minutes..1 h, 24 h minus 1 min..2 h, 24 h plus 61 s..2 h, 1..12 h}, 40 % of the histories prefixed by a structured schedule (A announces, B announces, A re-announces 1..20 h later, searches when B's 24 h are over but A's are not); networks of 2..4 (thorough ..9) nodes"
        } else {
            "2..10 operations separated by gaps from {0..1.2 s, 1.2..60 s, 1..10 min, 10..60 min}; networks of 2..9 nodes"
        };
        format!(
            "networks of real serving nodes only (all given each other as contacts, sockets bound first), one address family, ids uniform or clustered (1..151 bits shared with the info-hash), per-node announce port none/some, per-datagram latencies 0..999 ms with query->answer round trips < 1.5 s, loss-free; in a third of the cases some node pairs are slow in both directions (750..999 ms per datagram, round trips beyond the 1.5 s query timeout), and then the must-find assertion requires a third node that announcer and searcher both reach over fast pairs; {span}; each operation is an announcing or plain search for one of 2 info-hashes on some node, 30 % of them overlapping the next. Oracle: a search by B started >= 1.1 s after A's announcing search ended and finished <= 24 h - 60 s after it must yield A's IP with its announce port (or socket port); a search started >= 24 h + 60 s after the end of every announce of A (none in progress) must not; in between nothing is asserted; every operation ends; every node reports bootstrapped. Non-trivial: {}",
            if self.long { "one must-find and one must-not-find assertion in the same history" } else { ">= 3 nodes, a must-find assertion and overlapping operations" }
        )
    }
    fn sample(&self, c: &Case) -> serde_json::Value {
        serde_json::json!({"n": c.nodes.len(), "v6": c.v6, "cluster_bits": c.cluster_bits, "ports": c.nodes.iter().map(|n| n.1).collect::<Vec<_>>(), "events": c.events.iter().map(|e| format!("+{}ms {} node{} hash{}{}", e.gap_ms, if e.announce {"announce"} else {"search"}, e.node, e.hash, if e.overlap {" (overlap)"} else {""})).collect::<Vec<_>>()})
    }
}

pub fn spec() -> PropertySpec {
    PropertySpec {
        id: "C01",
        stages: vec![Box::new(EndToEnd { long: false }), Box::new(EndToEnd { long: true })],
        assumptions: vec![
            "Per-datagram latencies are below 1 s and every query->answer round trip stays below the implementation's documented 1.5 s query timeout (a reply later than that is by design indistinguishable from a lost one, which contradicts the loss-free premise).".into(),
            "announce_peer datagrams are emitted when the announcing search ends and need up to 1 s to arrive; 'once the announcing search has ended' is therefore asserted from 1.1 s after its end.".into(),
            "Virtual clock (hook H1); wire logging is switched off in these runs (the oracle uses the search streams only).".into(),
        ],
        explanation: "Oracle: end-to-end must-find / must-not-find windows on the items yielded by MainlineDht::search.".into(),
    }
}
