//! C08 — routing table keeps its shape; a node is only traded for a strictly better one.

use super::table_common::*;
use crate::engine::*;
use proptest::prelude::*;
use std::collections::HashSet;
use std::net::SocketAddr;

pub struct TableSeq;

fn check_shape(local: &Id, routers: &[SocketAddr], d: &Dump, interp: &Interp) -> Result<(), (String, String)> {
    let nb = d.len();
    if nb == 0 || nb > 160 {
        return Err(("bucket-count".into(), format!("{nb} buckets")));
    }
    let mut seen: HashSet<(Id, SocketAddr)> = HashSet::new();
    for (i, b) in d.iter().enumerate() {
        if b.len() > 8 {
            return Err(("bucket-too-large".into(), format!("bucket {i} has {} slots", b.len())));
        }
        for s in b.iter().filter(|s| s.live()) {
            if &s.id == local {
                return Err(("own-id-listed".into(), format!("bucket {i} lists the local id at {}", s.addr)));
            }
            if routers.contains(&s.addr) {
                return Err(("router-listed".into(), format!("bucket {i} lists router address {}", s.addr)));
            }
            if !seen.insert(s.handle()) {
                return Err(("duplicate-node".into(), format!("({}, {}) appears twice", crate::bcodec::hex(&s.id), s.addr)));
            }
            let l = lcp(local, &s.id);
            let ok = if i == nb - 1 { l >= i } else { l == i };
            if !ok {
                return Err(("wrong-bucket".into(), format!("node sharing {l} prefix bits sits in bucket {i} of {nb}")));
            }
        }
    }
    // the public listings agree with the dump
    let (good, quest) = interp.table.load_contacts();
    let dg: HashSet<SocketAddr> = d.iter().flatten().filter(|s| s.st == St::Good).map(|s| s.addr).collect();
    let dq: HashSet<SocketAddr> = d.iter().flatten().filter(|s| s.st == St::Questionable).map(|s| s.addr).collect();
    if good != dg || quest != dq {
        return Err(("contacts-disagree".into(), format!("load_contacts good={good:?} questionable={quest:?} but table holds good={dg:?} questionable={dq:?}")));
    }
    let listed: Vec<(Id, SocketAddr)> = interp
        .table
        .closest_nodes(btdht::InfoHash::from(*local))
        .map(|n| (n.id().into(), n.addr()))
        .collect();
    for h in &listed {
        if !seen.contains(h) {
            return Err(("lists-dead-node".into(), format!("closest_nodes lists ({}, {}) which is not live", crate::bcodec::hex(&h.0), h.1)));
        }
    }
    Ok(())
}

fn standing_name(s: St) -> &'static str {
    match s {
        St::Good => "good",
        St::Questionable => "questionable",
        St::Bad => "bad/free",
    }
}

fn check_offer(
    local: &Id,
    routers: &[SocketAddr],
    pre: &Dump,
    post: &Dump,
    good: bool,
    id: &Id,
    addr: &SocketAddr,
) -> Result<(bool, bool), (String, String)> {
    let s = if good { St::Good } else { St::Questionable };
    let x = (*id, *addr);
    let pre_live: Vec<(usize, Slot)> = live_of(pre);
    let post_live: HashSet<(Id, SocketAddr)> = live_of(post).into_iter().map(|(_, s)| s.handle()).collect();
    let removed: Vec<&(usize, Slot)> = pre_live.iter().filter(|(_, sl)| !post_live.contains(&sl.handle())).collect();
    let l = lcp(local, id);
    let nb = pre.len();
    let target = l.min(nb - 1);
    let passes = id != local && !routers.contains(addr);
    let tb = &pre[target.min(nb - 1)];
    let has_free = tb.iter().any(|sl| !sl.live());
    let has_worse = tb.iter().any(|sl| sl.st < s);
    let mixed = tb.iter().any(|sl| sl.st == St::Good) && tb.iter().any(|sl| sl.st == St::Questionable) && has_free;
    let ctx = || {
        format!(
            "offer of ({}, {addr}) as {} into bucket {target} of {nb}: [{}]",
            crate::bcodec::hex(id),
            standing_name(s),
            tb.iter().map(|sl| standing_name(sl.st)).collect::<Vec<_>>().join(",")
        )
    };
    if removed.len() > 1 {
        return Err(("removed-several".into(), format!("{} removed {} live nodes", ctx(), removed.len())));
    }
    if let Some((bi, y)) = removed.first() {
        if y.st >= s {
            return Err((
                "removed-equal-or-better".into(),
                format!("{} removed a {} node from bucket {bi}", ctx(), standing_name(y.st)),
            ));
        }
        if !post_live.contains(&x) {
            return Err(("removed-without-admission".into(), format!("{} removed a node but the offered node is not in the table", ctx())));
        }
        let yb = &pre[*bi];
        if yb.iter().any(|sl| !sl.live()) {
            return Err((
                "live-node-overwritten-while-free-slot".into(),
                format!("{} removed a live {} node from bucket {bi} which still had a free or bad slot", ctx(), standing_name(y.st)),
            ));
        }
    }
    if post.len() < pre.len() {
        return Err(("buckets-shrank".into(), ctx()));
    }
    if post.len() > pre.len() && l < nb - 1 {
        return Err(("split-wrong-bucket".into(), format!("{}: bucket count grew {} -> {} although the node belongs to bucket {l}", ctx(), pre.len(), post.len())));
    }
    if !passes {
        if post_live.contains(&x) && !pre_live.iter().any(|(_, sl)| sl.handle() == x) {
            return Err(("admitted-filtered-node".into(), ctx()));
        }
        return Ok((false, false));
    }
    if (has_free || has_worse) && !post_live.contains(&x) {
        return Err(("not-admitted-although-room".into(), format!("{}: room or a worse node existed but the node was not admitted", ctx())));
    }
    if !post_live.contains(&x) {
        let nb2 = post.len();
        let pb = l.min(nb2 - 1);
        let full = post[pb].iter().all(|sl| sl.st >= s) && post[pb].len() == 8;
        let unsplittable = pb != nb2 - 1 || pb == 159;
        if !(full && unsplittable) {
            return Err((
                "rejected-without-reason".into(),
                format!("{}: node rejected although bucket {pb} of {nb2} is not full of equal-or-better nodes or could be split", ctx()),
            ));
        }
    }
    Ok((mixed, post.len() > pre.len() && tb.iter().any(|sl| sl.st == St::Questionable) && tb.iter().any(|sl| sl.st == St::Good)))
}

impl Stage for TableSeq {
    type Case = TableCase;
    fn name(&self) -> &'static str {
        "table"
    }
    fn cases(&self, tier: Tier) -> u32 {
        tier.pick(4000, 80_000)
    }
    fn strategy(&self, tier: Tier) -> BoxedStrategy<TableCase> {
        table_case(tier.pick(300, 400)).boxed()
    }
    fn run(&self, c: &TableCase) -> Outcome {
        let rt = paused_rt(1);
        rt.block_on(async {
            let mut it = Interp::new(c);
            let mut pre = dump(&it.table);
            let mut mixed_offer = false;
            let mut mixed_split = false;
            let mut max_buckets = 1;
            for (n, op) in c.ops.iter().enumerate() {
                let applied = it.apply(op).await;
                let post = dump(&it.table);
                if let Err((k, d)) = check_shape(&it.local, &it.routers, &post, &it) {
                    return Outcome::violation(k, format!("after op #{n} {op:?}: {d}"));
                }
                if let Applied::Response { id, addr, named, named_addr } = &applied {
                    // step 1 (already applied): the responder offered as good
                    if let Err((k, d)) = check_offer(&it.local, &it.routers, &pre, &post, true, id, addr) {
                        return Outcome::violation(k, format!("op #{n} (responder): {d}"));
                    }
                    // step 2: the real add_nodes call; the responder is offered again (no structural
                    // change) and the named node as hearsay
                    let mid = post.clone();
                    it.respond(*id, *addr, *named, *named_addr);
                    let post2 = dump(&it.table);
                    if let Err((k, d)) = check_shape(&it.local, &it.routers, &post2, &it) {
                        return Outcome::violation(k, format!("after op #{n} {op:?} (add_nodes): {d}"));
                    }
                    if named != id || named_addr != addr {
                        if let Err((k, d)) = check_offer(&it.local, &it.routers, &mid, &post2, false, named, named_addr) {
                            return Outcome::violation(k, format!("op #{n} (named node via add_nodes): {d}"));
                        }
                    }
                    max_buckets = max_buckets.max(post2.len());
                    pre = post2;
                    continue;
                }
                match &applied {
                    Applied::Response { .. } => unreachable!(),
                    Applied::Offer { good, id, addr } => match check_offer(&it.local, &it.routers, &pre, &post, *good, id, addr) {
                        Ok((m, s)) => {
                            mixed_offer |= m;
                            mixed_split |= s;
                        }
                        Err((k, d)) => return Outcome::violation(k, format!("op #{n}: {d}")),
                    },
                    _ => {
                        // non-offer operations never move, add or remove nodes
                        let a: Vec<Vec<(Id, SocketAddr)>> = pre.iter().map(|b| b.iter().map(|s| s.handle()).collect()).collect();
                        let b: Vec<Vec<(Id, SocketAddr)>> = post.iter().map(|b| b.iter().map(|s| s.handle()).collect()).collect();
                        if a != b {
                            return Outcome::violation("non-offer-changed-table", format!("op #{n} {op:?} changed the slots"));
                        }
                    }
                }
                max_buckets = max_buckets.max(post.len());
                pre = post;
            }
            let nt = max_buckets >= 3 && (mixed_offer || mixed_split);
            Outcome::pass(nt)
                .label(format!("buckets:{}", match max_buckets { 1 => "1", 2 => "2", 3..=8 => "3-8", 9..=40 => "9-40", _ => "41+" }))
                .label(if mixed_offer { "mixed-offer" } else { "no-mixed-offer" })
        })
    }
    fn rule(&self) -> String {
        "sequences of 20..300(400) operations on the real RoutingTable under a paused clock: offers as responder (good) / hearsay (questionable) with ids built relative to the local id (flip bit b, b absolute 0..159 or relative to the current last bucket; equal to the local id; all-zero filler id; last-bit neighbours), responses naming another node (RoutingTable::add_nodes, as the handler calls it), repeats of existing slots, id/address clashes, query-sent / query-received events, time steps (1 s, ~30 s, ~15 min, 1 h, 2^k ms +/- 5 s for k = 24..40); router set fixed before the first offer. After every op: shape invariants + transition rules. Non-trivial: reached >=3 buckets and contained an offer into a bucket holding good, questionable and free/bad slots at once, or a split of such a bucket".into()
    }
    fn sample(&self, c: &TableCase) -> serde_json::Value {
        serde_json::json!({"local": crate::bcodec::hex(&c.local), "routers": c.routers.len(), "n_ops": c.ops.len(), "first_ops": c.ops.iter().take(6).map(|o| format!("{o:?}")).collect::<Vec<_>>()})
    }
}

pub fn spec() -> PropertySpec {
    PropertySpec {
        id: "C08",
        stages: vec![Box::new(TableSeq)],
        assumptions: vec![
            "Driven through the re-exported RoutingTable/Node API (hook H2) exactly as handler/bootstrap use it: add_node(Node::as_good | as_questionable), find_node_mut().local_request()/remote_request().".into(),
            "The router set is fixed before the first offer (as in the real node, where it is assigned when bootstrap starts).".into(),
            "Standing = Node::status() read at the instant of the offer under the virtual clock (hook H1).".into(),
        ],
        explanation: "Oracle: invariants over a full dump of all buckets after every operation, and pre/post transition rules for every offer (at most one node removed; only a strictly worse one; never a live node while its bucket has a free/bad slot; admission whenever room or a worse node exists; splits only of the bucket covering the local id).".into(),
    }
}
