//! C05 — each well-formed query gets exactly one correct reply; nothing else is answered.

use super::c13::{btree, id20};
use crate::bcodec::*;
use crate::engine::*;
use crate::sim::*;
use crate::world::*;
use proptest::collection::vec;
use proptest::prelude::*;
use serde::{Deserialize, Serialize};
use std::collections::HashMap;
use std::net::{IpAddr, SocketAddr};
use std::time::Duration;

#[derive(Clone, Debug, Serialize, Deserialize)]
pub struct Contact {
    other_family: bool,
    silent: bool,
    seed: u8,
}

#[derive(Clone, Debug, Serialize, Deserialize)]
pub enum TokSpec {
    Right,
    OtherIp,
    Random20(u64),
    Len(u8),
    /// the right token followed by extra bytes / cut to a prefix (wrong length, must be refused)
    RightPlus(u8),
    RightPrefix(u8),
}

#[derive(Clone, Debug, Serialize, Deserialize)]
pub enum TidSpec {
    Bytes(#[serde(with = "hexser")] Vec<u8>),
    /// copy the tid of the k-th most recent datagram the node sent to this source
    CopySent(u8),
}

#[derive(Clone, Debug, Serialize, Deserialize)]
pub enum QKind {
    Ping,
    FindNode {
        #[serde(with = "hexser")]
        target: Vec<u8>,
        own: bool,
    },
    GetPeers { hash: u8 },
    Announce { hash: u8, port: Option<u16>, token: TokSpec },
}

#[derive(Clone, Debug, Serialize, Deserialize)]
pub enum NonQ {
    Response,
    Error,
    Garbage(#[serde(with = "hexser")] Vec<u8>),
    /// a well-formed query cut after this many bytes (in per-mille of its length)
    Truncated(u16),
    /// query with an unknown method name
    UnknownMethod,
}

#[derive(Clone, Debug, Serialize, Deserialize)]
pub enum Inj {
    Query { gap_ms: u32, src: u8, kind: QKind, want: KWant, tid: TidSpec, unknown: Option<(String, B)>, shuffle: u64 },
    Other { gap_ms: u32, src: u8, what: NonQ, tid: TidSpec },
}

#[derive(Clone, Debug, Serialize, Deserialize)]
pub struct Case {
    v6: bool,
    read_only: bool,
    #[serde(with = "hexser")]
    node_id: Vec<u8>,
    contacts: Vec<Contact>,
    /// (source index, hash index, explicit port) announced before the sequence
    store: Vec<(u8, u8, Option<u16>)>,
    rt_seed: u64,
    warmup_ms: u32,
    dgrams: Vec<Inj>,
}

pub const HASHES: usize = 4;

pub fn hash_n(n: u8) -> Id {
    let mut h = [0u8; 20];
    for (i, b) in h.iter_mut().enumerate() {
        *b = (splitmix(n as u64 % HASHES as u64 + 77).rotate_left(i as u32 * 3) & 0xff) as u8;
    }
    h
}

fn fam_addr(v6: bool, n: u16, port: u16) -> SocketAddr {
    if v6 {
        crate::sim::v6(n, port)
    } else {
        v4((n >> 8) as u8, (n & 0xff) as u8, port)
    }
}

struct World {
    node: SocketAddr,
    sources: Vec<SocketAddr>,
}

fn world(c: &Case) -> World {
    let node = fam_addr(c.v6, 1, 6881);
    let mut sources = vec![];
    for (i, ct) in c.contacts.iter().enumerate() {
        sources.push(fam_addr(c.v6 ^ ct.other_family, 100 + i as u16, 7000 + i as u16));
    }
    // strangers: same family (two share an IP), other family
    sources.push(fam_addr(c.v6, 200, 9000));
    sources.push(fam_addr(c.v6, 200, 9001));
    sources.push(fam_addr(c.v6, 201, 9000));
    sources.push(fam_addr(!c.v6, 300, 9100));
    sources.push(fam_addr(!c.v6, 301, 9100));
    World { node, sources }
}

fn contact_id(seed: u8, i: usize) -> Id {
    let mut id = [0u8; 20];
    let mut x = splitmix(seed as u64 * 1000 + i as u64);
    for b in id.iter_mut() {
        x = splitmix(x);
        *b = x as u8;
    }
    id
}

fn tid_spec() -> impl Strategy<Value = TidSpec> {
    prop_oneof![
        3 => super::c13::tid().prop_map(TidSpec::Bytes),
        2 => (0u8..3).prop_map(TidSpec::CopySent),
    ]
}

fn inj() -> impl Strategy<Value = Inj> {
    let gap = prop_oneof![3 => Just(0u32), 3 => 1u32..50, 2 => 50u32..3000, 1 => 3000u32..8000];
    let kind = prop_oneof![
        Just(QKind::Ping),
        (id20(), prop::bool::weighted(0.2)).prop_map(|(target, own)| QKind::FindNode { target, own }),
        (0u8..HASHES as u8).prop_map(|hash| QKind::GetPeers { hash }),
        (0u8..HASHES as u8, proptest::option::of(any::<u16>()),
         prop_oneof![4 => Just(TokSpec::Right), 1 => Just(TokSpec::OtherIp), 1 => any::<u64>().prop_map(TokSpec::Random20), 1 => (0u8..=40).prop_map(TokSpec::Len), 1 => (1u8..24).prop_map(TokSpec::RightPlus), 1 => (0u8..20).prop_map(TokSpec::RightPrefix)])
            .prop_map(|(hash, port, token)| QKind::Announce { hash, port, token }),
    ];
    let unknown = proptest::option::weighted(0.2, ("[b-z]{1,2}[0-9]", btree(3)));
    let nonq = prop_oneof![
        Just(NonQ::Response),
        Just(NonQ::Error),
        vec(any::<u8>(), 0..60).prop_map(NonQ::Garbage),
        (0u16..1000).prop_map(NonQ::Truncated),
        Just(NonQ::UnknownMethod),
    ];
    prop_oneof![
        3 => (gap.clone(), any::<u8>(), kind, super::c13::want(), tid_spec(), unknown, any::<u64>())
            .prop_map(|(gap_ms, src, kind, want, tid, unknown, shuffle)| Inj::Query { gap_ms, src, kind, want, tid, unknown, shuffle }),
        1 => (gap, any::<u8>(), nonq, tid_spec()).prop_map(|(gap_ms, src, what, tid)| Inj::Other { gap_ms, src, what, tid }),
    ]
}

fn shuffle_tree(b: &B, seed: &mut u64) -> B {
    match b {
        B::Dict(kv) => {
            let mut kv: Vec<(Vec<u8>, B)> = kv.iter().map(|(k, v)| (k.clone(), shuffle_tree(v, seed))).collect();
            for i in (1..kv.len()).rev() {
                *seed = splitmix(*seed);
                kv.swap(i, (*seed % (i as u64 + 1)) as usize);
            }
            B::Dict(kv)
        }
        B::List(l) => B::List(l.iter().map(|x| shuffle_tree(x, seed)).collect()),
        x => x.clone(),
    }
}

pub struct Replies;

struct Ctx {
    net: SimNet,
    w: World,
    node_id: Id,
    serving: bool,
    v6: bool,
    tokens: HashMap<IpAddr, Vec<u8>>,
    expected_replies: u64,
    kinds: std::collections::BTreeSet<&'static str>,
    nonq: u32,
    special: u32,
}

type V = Result<(), (String, String)>;

impl Ctx {
    fn resolve_tid(&self, spec: &TidSpec, src: SocketAddr) -> (Vec<u8>, bool) {
        match spec {
            TidSpec::Bytes(b) => (b.clone(), false),
            TidSpec::CopySent(k) => {
                let log = self.net.log();
                let now = self.net.now();
                let sent: Vec<&Ev> = log
                    .iter()
                    .rev()
                    .filter(|e| e.from == self.w.node && e.to == src && matches!(e.kind, EvKind::Send { .. }))
                    .collect();
                match sent.get(*k as usize).and_then(|e| KMsg::decode(&e.bytes).ok().map(|m| (m, e.t))) {
                    Some((m, t)) => {
                        let recent = matches!(m.body, KBody::Query(_)) && now.saturating_sub(t) <= Duration::from_millis(2600);
                        (m.tid, recent)
                    }
                    None => (vec![0xAB; 8], false),
                }
            }
        }
    }

    /// inject, settle, and return what the node sent to `src` as r/e in that window
    async fn exchange(&self, src: SocketAddr, bytes: &[u8]) -> Vec<KMsg> {
        let start = self.net.log_len();
        self.net.inject(src, self.w.node, bytes);
        self.net.settle().await;
        let log = self.net.log_from(start);
        sent_by(&log, self.w.node)
            .into_iter()
            .filter(|(e, _)| e.to == src)
            .filter_map(|(e, m)| match m {
                Some(m) if is_reply(&m) => Some(m),
                Some(_) => None,
                None => Some(KMsg { tid: vec![], body: KBody::Error { code: -1, msg: format!("undecodable datagram from node: {}", super::c13::show(&e.bytes)) } }),
            })
            .collect()
    }

    async fn query(&mut self, src: SocketAddr, q: KQuery, tid: Vec<u8>, echoes: bool, unknown: &Option<(String, B)>, shuffle: u64, expect_ack: Option<bool>) -> V {
        let m = KMsg { tid: tid.clone(), body: KBody::Query(q.clone()) };
        let mut tree = m.to_b();
        if let Some((k, v)) = unknown {
            if let Some(B::Dict(kv)) = tree.get_mut("a") {
                if !kv.iter().any(|(kk, _)| kk == k.as_bytes()) {
                    kv.push((k.as_bytes().to_vec(), v.clone()));
                }
            }
        }
        let mut s = shuffle;
        let bytes = if shuffle % 3 == 0 { tree.encode() } else { shuffle_tree(&tree, &mut s).encode() };
        let replies = self.exchange(src, &bytes).await;
        let what = || format!("{} from {src} tid {} ({} bytes)", q.method(), hex(&tid), bytes.len());
        if !self.serving {
            if !replies.is_empty() {
                return Err(("read-only-node-replied".into(), format!("{} got {:?}", what(), replies)));
            }
            return Ok(());
        }
        self.expected_replies += 1;
        if replies.is_empty() {
            let kind = if echoes { "no-reply/tid-echoes-own-inflight-query" } else { "no-reply" };
            return Err((kind.into(), format!("{} got no reply", what())));
        }
        if replies.len() > 1 {
            return Err(("several-replies".into(), format!("{} got {} replies: {:?}", what(), replies.len(), replies)));
        }
        let r = &replies[0];
        if r.tid != tid {
            return Err(("tid-not-echoed".into(), format!("{} answered with tid {}", what(), hex(&r.tid))));
        }
        let want_fams = |w: KWant| match w {
            KWant::Absent => (!self.v6, self.v6),
            KWant::N4 => (true, false),
            KWant::N6 => (false, true),
            KWant::Both => (true, true),
        };
        match (&q, &r.body) {
            (KQuery::Announce { .. }, KBody::Error { code, .. }) => {
                if expect_ack == Some(true) {
                    return Err(("valid-announce-refused".into(), format!("{} refused with error {code}", what())));
                }
                if *code != 203 && *code != 202 {
                    return Err(("wrong-error-code".into(), format!("{} refused with error {code}", what())));
                }
                if expect_ack == Some(false) && *code != 203 {
                    return Err(("wrong-error-code".into(), format!("{} (bad token) refused with error {code}, expected 203", what())));
                }
            }
            (_, KBody::Error { code, msg }) => {
                return Err(("query-answered-with-error".into(), format!("{} answered with error {code} {msg:?}", what())));
            }
            (_, KBody::Resp(resp)) => {
                if resp.id != self.node_id {
                    return Err(("wrong-id-in-reply".into(), format!("{} answered with id {}", what(), hex(&resp.id))));
                }
                match &q {
                    KQuery::Ping { .. } | KQuery::Announce { .. } => {
                        if matches!(q, KQuery::Announce { .. }) && expect_ack == Some(false) {
                            return Err(("bad-token-accepted".into(), format!("{} was acknowledged", what())));
                        }
                        if resp.token.is_some() || !resp.values.is_empty() || !resp.nodes.is_empty() || !resp.nodes6.is_empty() {
                            return Err(("extra-fields".into(), format!("{} answered with {:?}", what(), resp)));
                        }
                    }
                    KQuery::FindNode { want, .. } => {
                        if resp.token.is_some() || !resp.values.is_empty() {
                            return Err(("extra-fields".into(), format!("{} answered with token/values: {:?}", what(), resp)));
                        }
                        let (w4, w6) = want_fams(*want);
                        if (!w4 && !resp.nodes.is_empty()) || (!w6 && !resp.nodes6.is_empty()) {
                            return Err(("unrequested-family".into(), format!("{} want {:?}: nodes={} nodes6={}", what(), want, resp.nodes.len(), resp.nodes6.len())));
                        }
                    }
                    KQuery::GetPeers { want, .. } => {
                        match &resp.token {
                            Some(t) if t.len() == 20 => {
                                self.tokens.insert(src.ip(), t.clone());
                            }
                            other => return Err(("token-missing-or-wrong-length".into(), format!("{} answered with token {:?}", what(), other.as_ref().map(|t| hex(t))))),
                        }
                        if let Some(v) = resp.values.iter().find(|v| v.is_ipv6() != src.is_ipv6()) {
                            return Err(("value-of-other-family".into(), format!("{} got value {v}", what())));
                        }
                        let (w4, w6) = want_fams(*want);
                        if (!w4 && !resp.nodes.is_empty()) || (!w6 && !resp.nodes6.is_empty()) {
                            return Err(("unrequested-family".into(), format!("{} want {:?}: nodes={} nodes6={}", what(), want, resp.nodes.len(), resp.nodes6.len())));
                        }
                    }
                }
            }
            (_, KBody::Query(_)) => unreachable!(),
        }
        Ok(())
    }
}

impl Stage for Replies {
    type Case = Case;
    fn name(&self) -> &'static str {
        "replies"
    }
    fn cases(&self, tier: Tier) -> u32 {
        tier.pick(8000, 400_000)
    }
    fn strategy(&self, _t: Tier) -> BoxedStrategy<Case> {
        (
            (any::<bool>(), prop::bool::weighted(0.2), id20(), any::<u64>(), prop_oneof![Just(0u32), 0u32..3000, 3000u32..9000]),
            vec((prop::bool::weighted(0.25), prop::bool::weighted(0.4), any::<u8>()).prop_map(|(other_family, silent, seed)| Contact { other_family, silent, seed }), 0..=12),
            vec((any::<u8>(), 0u8..HASHES as u8, proptest::option::of(1u16..)), 0..=20),
            vec(inj(), 5..=40),
        )
            .prop_map(|((v6, read_only, node_id, rt_seed, warmup_ms), contacts, store, dgrams)| Case { v6, read_only, node_id, contacts, store, rt_seed, warmup_ms, dgrams })
            .boxed()
    }
    fn run(&self, c: &Case) -> Outcome {
        let rt = paused_rt(c.rt_seed);
        rt.block_on(async {
            let net = SimNet::new(Box::new(Instant0));
            let w = world(c);
            let node_id = id_of(&c.node_id);
            // contacts
            let names: Vec<(Id, SocketAddr)> = c.contacts.iter().enumerate().map(|(i, ct)| (contact_id(ct.seed, i), w.sources[i])).collect();
            for (i, ct) in c.contacts.iter().enumerate() {
                if !ct.silent {
                    spawn_simple_contact(&net, w.sources[i], names[i].0, names.clone(), 5 + (ct.seed as u64 % 200));
                }
            }
            let dht = start_node(&net, &NodeCfg {
                addr: w.node,
                id: node_id,
                read_only: c.read_only,
                nodes: w.sources[..c.contacts.len()].to_vec(),
                routers: vec![],
                announce_port: None,
            });
            let mut cx = Ctx { net: net.clone(), w, node_id, serving: !c.read_only, v6: c.v6, tokens: HashMap::new(), expected_replies: 0, kinds: Default::default(), nonq: 0, special: 0 };
            tokio::time::sleep(Duration::from_millis(c.warmup_ms as u64)).await;
            let fail = |n: usize, (k, d): (String, String)| Outcome::violation(k, format!("datagram #{n}: {d}"));

            // pre-fill the peer store (serving nodes only)
            if cx.serving {
                for (n, (src, hash, port)) in c.store.iter().enumerate() {
                    let src = cx.w.sources[idx((*src as u16) << 8, cx.w.sources.len())];
                    let h = hash_n(*hash).to_vec();
                    let my_id = contact_id(200, n).to_vec();
                    if let Err(e) = cx.query(src, KQuery::GetPeers { id: my_id.clone(), info_hash: h.clone(), want: KWant::Absent }, vec![b'p', n as u8], false, &None, 0, None).await {
                        return fail(1000 + n, e);
                    }
                    let token = cx.tokens.get(&src.ip()).cloned().unwrap_or_default();
                    if let Err(e) = cx.query(src, KQuery::Announce { id: my_id, info_hash: h, port: *port, token }, vec![b'a', n as u8], false, &None, 0, Some(true)).await {
                        return fail(1000 + n, e);
                    }
                }
            }

            for (n, d) in c.dgrams.iter().enumerate() {
                match d {
                    Inj::Query { gap_ms, src, kind, want, tid, unknown, shuffle } => {
                        tokio::time::sleep(Duration::from_millis(*gap_ms as u64)).await;
                        let src = cx.w.sources[idx((*src as u16) << 8, cx.w.sources.len())];
                        let my_id = contact_id(201, *shuffle as usize % 5).to_vec();
                        let (tid, echoes) = cx.resolve_tid(tid, src);
                        if echoes {
                            cx.special += 1;
                        }
                        if tid.len() != 8 {
                            cx.special += 1;
                        }
                        let (q, expect) = match kind {
                            QKind::Ping => {
                                cx.kinds.insert("ping");
                                (KQuery::Ping { id: my_id }, None)
                            }
                            QKind::FindNode { target, own } => {
                                cx.kinds.insert("find_node");
                                if *want != KWant::Absent {
                                    cx.special += 1;
                                }
                                (KQuery::FindNode { id: my_id, target: if *own { cx.node_id.to_vec() } else { target.clone() }, want: *want }, None)
                            }
                            QKind::GetPeers { hash } => {
                                cx.kinds.insert("get_peers");
                                if *want != KWant::Absent {
                                    cx.special += 1;
                                }
                                (KQuery::GetPeers { id: my_id, info_hash: hash_n(*hash).to_vec(), want: *want }, None)
                            }
                            QKind::Announce { hash, port, token } => {
                                cx.kinds.insert("announce_peer");
                                let (tok, expect) = match token {
                                    TokSpec::Right => {
                                        if cx.serving && !cx.tokens.contains_key(&src.ip()) {
                                            // obtain one first (itself a checked query)
                                            if let Err(e) = cx.query(src, KQuery::GetPeers { id: my_id.clone(), info_hash: hash_n(*hash).to_vec(), want: KWant::Absent }, vec![b'g', n as u8], false, &None, 0, None).await {
                                                return fail(n, e);
                                            }
                                        }
                                        match cx.tokens.get(&src.ip()) {
                                            Some(t) => (t.clone(), Some(true)),
                                            None => (vec![7u8; 20], Some(false)),
                                        }
                                    }
                                    TokSpec::OtherIp => {
                                        cx.special += 1;
                                        match cx.tokens.iter().find(|(ip, _)| **ip != src.ip()) {
                                            Some((_, t)) => (t.clone(), Some(false)),
                                            None => (vec![9u8; 20], Some(false)),
                                        }
                                    }
                                    TokSpec::Random20(s) => {
                                        cx.special += 1;
                                        let mut t = vec![];
                                        let mut x = *s;
                                        for _ in 0..20 {
                                            x = splitmix(x);
                                            t.push(x as u8);
                                        }
                                        (t, Some(false))
                                    }
                                    TokSpec::RightPlus(_) | TokSpec::RightPrefix(_) => {
                                        cx.special += 1;
                                        if cx.serving && !cx.tokens.contains_key(&src.ip()) {
                                            if let Err(e) = cx.query(src, KQuery::GetPeers { id: my_id.clone(), info_hash: hash_n(*hash).to_vec(), want: KWant::Absent }, vec![b'h', n as u8], false, &None, 0, None).await {
                                                return fail(n, e);
                                            }
                                        }
                                        let mut t = cx.tokens.get(&src.ip()).cloned().unwrap_or_else(|| vec![3u8; 20]);
                                        match token {
                                            TokSpec::RightPlus(k) => t.extend(std::iter::repeat(0x2a).take(*k as usize)),
                                            TokSpec::RightPrefix(k) => t.truncate(*k as usize),
                                            _ => unreachable!(),
                                        }
                                        (t, Some(false))
                                    }
                                    TokSpec::Len(l) => {
                                        cx.special += 1;
                                        if *l == 20 {
                                            (vec![0x55; 20], Some(false))
                                        } else {
                                            (vec![0x55; *l as usize], Some(false))
                                        }
                                    }
                                };
                                (KQuery::Announce { id: my_id, info_hash: hash_n(*hash).to_vec(), port: *port, token: tok }, expect)
                            }
                        };
                        if let Err(e) = cx.query(src, q, tid, echoes, unknown, *shuffle, expect).await {
                            return fail(n, e);
                        }
                    }
                    Inj::Other { gap_ms, src, what, tid } => {
                        tokio::time::sleep(Duration::from_millis(*gap_ms as u64)).await;
                        cx.nonq += 1;
                        let src = cx.w.sources[idx((*src as u16) << 8, cx.w.sources.len())];
                        let (tid, _) = cx.resolve_tid(tid, src);
                        let ping = KMsg { tid: tid.clone(), body: KBody::Query(KQuery::FindNode { id: contact_id(9, 9).to_vec(), target: cx.node_id.to_vec(), want: KWant::Both }) };
                        let bytes = match what {
                            NonQ::Response => resp(&tid, KResp { id: contact_id(9, 1).to_vec(), token: Some(vec![1, 2, 3]), values: vec![cx.w.sources[0]], ..Default::default() }).encode(),
                            NonQ::Error => KMsg { tid: tid.clone(), body: KBody::Error { code: 201, msg: "oops".into() } }.encode(),
                            NonQ::Garbage(g) => g.clone(),
                            NonQ::Truncated(pm) => {
                                let b = ping.encode();
                                let cut = ((b.len() - 1) * (*pm as usize)) / 1000;
                                b[..cut].to_vec()
                            }
                            NonQ::UnknownMethod => {
                                let mut t = ping.to_b();
                                *t.get_mut("q").unwrap() = B::str("vote");
                                t.encode()
                            }
                        };
                        let replies = cx.exchange(src, &bytes).await;
                        if !replies.is_empty() {
                            return Outcome::violation("non-query-answered", format!("datagram #{n} ({what:?}, {} from {src}) was answered with {:?}", super::c13::show(&bytes), replies));
                        }
                    }
                }
            }
            // global count
            cx.net.settle().await;
            let log = cx.net.log();
            let emitted = sent_by(&log, cx.w.node).into_iter().filter(|(_, m)| m.as_ref().map(is_reply).unwrap_or(false)).count() as u64;
            if emitted != cx.expected_replies {
                return Outcome::violation("reply-count", format!("node emitted {emitted} response/error datagrams for {} well-formed queries", cx.expected_replies));
            }
            if let Some(o) = cx.net.oversize().first() {
                let _ = o; // reported under C17 only
            }
            let alive = within(Duration::from_secs(5), dht.get_state()).await.flatten().is_some();
            if !alive {
                return Outcome::violation("node-dead", "get_state() no longer answers after the sequence");
            }
            let nt = cx.kinds.len() >= 3 && cx.nonq >= 1 && cx.special >= 1;
            Outcome::pass(nt).label(if c.read_only { "read-only" } else { "serving" }).label(if c.v6 { "node-v6" } else { "node-v4" })
        })
    }
    fn rule(&self) -> String {
        "one real node (serving 80% / read-only; v4 or v6; bootstrapping against 0..12 scripted contacts of either family, 40% silent; store pre-filled with 0..20 announced peers) receives 5..40 injected datagrams from contacts' and strangers' addresses of both families: well-formed queries (all four kinds, want absent/n4/n6/both, explicit/implied port, token right/other-IP/random/wrong length/right token with extra bytes or cut short, tid 0..32 B or copied from a datagram the node itself just sent to that address, optional unknown key, shuffled keys) interleaved with responses, errors, garbage, truncated and unknown-method queries, with gaps 0..8 s. Oracle per datagram from the wire log of the same virtual millisecond. Non-trivial: >=3 query kinds, >=1 non-query, and >=1 of {non-8-byte tid, want list, bad token, echoed tid}".into()
    }
    fn sample(&self, c: &Case) -> serde_json::Value {
        serde_json::json!({"v6": c.v6, "read_only": c.read_only, "contacts": c.contacts.len(), "store": c.store.len(), "dgrams": c.dgrams.iter().take(4).map(|d| format!("{d:?}")).collect::<Vec<_>>(), "n_dgrams": c.dgrams.len()})
    }
}

pub fn spec() -> PropertySpec {
    PropertySpec {
        id: "C05",
        stages: vec![Box::new(Replies), Box::new(super::c17::Sizes { discipline: true })],
        assumptions: vec![
            "Replies are attributed to an injected datagram when the node hands a y=r/e datagram for the same source address to the network within the same virtual millisecond (all node-side processing is instantaneous in virtual time).".into(),
            "A random 20-byte token is accepted with probability 2^-31; violations are confirmed by re-execution before being reported.".into(),
            "Simulated network lets a v4 node exchange datagrams with v6 addresses so that both families can be present in table and store.".into(),
        ],
        explanation: "Oracle: per-datagram reply discipline decoded with the independent codec, plus a global count (#response/error datagrams emitted == #well-formed queries to a serving node).".into(),
    }
}
