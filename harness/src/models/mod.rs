pub mod bep42;
