//! Independent BEP42 validator with its own table-driven CRC32-C (Castagnoli, reflected).

use std::net::IpAddr;

fn table() -> &'static [u32; 256] {
    use std::sync::OnceLock;
    static T: OnceLock<[u32; 256]> = OnceLock::new();
    T.get_or_init(|| {
        let mut t = [0u32; 256];
        for i in 0..256u32 {
            let mut c = i;
            for _ in 0..8 {
                c = if c & 1 != 0 { (c >> 1) ^ 0x82F63B78 } else { c >> 1 };
            }
            t[i as usize] = c;
        }
        t
    })
}

pub fn crc32c(data: &[u8]) -> u32 {
    let t = table();
    let mut c = !0u32;
    for b in data {
        c = t[((c ^ *b as u32) & 0xff) as usize] ^ (c >> 8);
    }
    !c
}

/// The 21-bit prefix (as the three leading bytes with the low 3 bits of the third cleared)
/// that BEP42 prescribes for `ip` and random value `r` (only its low 3 bits are used).
pub fn expected_prefix(ip: IpAddr, r: u8) -> [u8; 3] {
    let r = (r & 7) as u64;
    let crc = match ip {
        IpAddr::V4(a) => {
            let v = (u32::from(a) & 0x030f_3fff) | ((r as u32) << 29);
            crc32c(&v.to_be_bytes())
        }
        IpAddr::V6(a) => {
            let o = a.octets();
            let mut hi = [0u8; 8];
            hi.copy_from_slice(&o[..8]);
            let v = (u64::from_be_bytes(hi) & 0x0103_070f_1f3f_7fff) | (r << 61);
            crc32c(&v.to_be_bytes())
        }
    };
    [(crc >> 24) as u8, (crc >> 16) as u8, ((crc >> 8) as u8) & 0xf8]
}

/// BEP42 check of a node id against the address it claims to come from.
pub fn valid(ip: IpAddr, id: &[u8; 20]) -> bool {
    let e = expected_prefix(ip, id[19]);
    id[0] == e[0] && id[1] == e[1] && (id[2] & 0xf8) == e[2]
}

pub fn selftest() -> Result<(), String> {
    if crc32c(b"123456789") != 0xE306_9283 {
        return Err("crc32c check value mismatch".into());
    }
    // The five published BEP42 vectors: (ip, rand, id prefix)
    let v: [(&str, u8, [u8; 3]); 5] = [
        ("124.31.75.21", 1, [0x5f, 0xbf, 0xbf]),
        ("21.75.31.124", 86, [0x5a, 0x3c, 0xe9]),
        ("65.23.51.170", 22, [0xa5, 0xd4, 0x32]),
        ("84.124.73.14", 65, [0x1b, 0x03, 0x21]),
        ("43.213.53.83", 90, [0xe5, 0x6f, 0x6c]),
    ];
    for (ip, r, pre) in v {
        let ip: IpAddr = ip.parse().unwrap();
        let mut id = [0x11u8; 20];
        id[0] = pre[0];
        id[1] = pre[1];
        id[2] = pre[2];
        id[19] = r;
        if !valid(ip, &id) {
            return Err(format!("BEP42 vector {ip} rejected"));
        }
        for bit in 0..21 {
            let mut bad = id;
            bad[bit / 8] ^= 0x80 >> (bit % 8);
            if valid(ip, &bad) {
                return Err(format!("BEP42 vector {ip} with bit {bit} flipped accepted"));
            }
        }
    }
    Ok(())
}
