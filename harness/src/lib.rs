//! Verification harness for equalitie/btdht (library part: engine, codecs, simulation, properties).

pub mod bcodec;
pub mod engine;
pub mod models;
pub mod props;
pub mod sim;
pub mod world;

/// Counting allocator: largest single request and total bytes requested since the last reset
/// (used by the C14 decode tier; negligible cost elsewhere).
pub mod alloc_count {
    use std::alloc::{GlobalAlloc, Layout, System};
    use std::sync::atomic::{AtomicUsize, Ordering::Relaxed};
    pub static LARGEST: AtomicUsize = AtomicUsize::new(0);
    pub static TOTAL: AtomicUsize = AtomicUsize::new(0);
    pub struct Counting;
    unsafe impl GlobalAlloc for Counting {
        unsafe fn alloc(&self, l: Layout) -> *mut u8 {
            LARGEST.fetch_max(l.size(), Relaxed);
            TOTAL.fetch_add(l.size(), Relaxed);
            System.alloc(l)
        }
        unsafe fn alloc_zeroed(&self, l: Layout) -> *mut u8 {
            LARGEST.fetch_max(l.size(), Relaxed);
            TOTAL.fetch_add(l.size(), Relaxed);
            System.alloc_zeroed(l)
        }
        unsafe fn realloc(&self, p: *mut u8, l: Layout, new: usize) -> *mut u8 {
            LARGEST.fetch_max(new, Relaxed);
            TOTAL.fetch_add(new.saturating_sub(l.size()), Relaxed);
            System.realloc(p, l, new)
        }
        unsafe fn dealloc(&self, p: *mut u8, l: Layout) {
            System.dealloc(p, l)
        }
    }
    pub fn reset() {
        LARGEST.store(0, Relaxed);
        TOTAL.store(0, Relaxed);
    }
    pub fn read() -> (usize, usize) {
        (LARGEST.load(Relaxed), TOTAL.load(Relaxed))
    }
}

