//! In-memory datagram network with a wire log, pluggable delivery policy and virtual time.

use async_trait::async_trait;
use btdht::SocketTrait;
use std::collections::HashMap;
use std::io;
use std::net::SocketAddr;
use std::sync::{Arc, Mutex};
use std::time::Duration;
use tokio::sync::mpsc;

#[derive(Clone, Debug, PartialEq, Eq)]
pub enum EvKind {
    /// handed to the network by `from`; `copies` deliveries were scheduled (0 = lost)
    Send { copies: u8 },
    /// `send_to` returned an error to the sender (injected send failure); nothing was sent
    SendFailed,
    /// arrived in the inbox of `to`
    Deliver,
    /// reached an address nobody listens on
    NoRoute,
}

#[derive(Clone, Debug)]
pub struct Ev {
    pub t: Duration,
    pub kind: EvKind,
    pub from: SocketAddr,
    pub to: SocketAddr,
    pub bytes: Arc<Vec<u8>>,
    /// id of the datagram (shared by the Send event and its Deliver events)
    pub dgram: u64,
}

impl Ev {
    pub fn ms(&self) -> u64 {
        self.t.as_millis() as u64
    }
}

pub struct Dgram<'a> {
    pub from: SocketAddr,
    pub to: SocketAddr,
    /// n-th datagram on this directed pair (0-based)
    pub seq: u32,
    pub bytes: &'a [u8],
    pub now: Duration,
}

pub enum Fate {
    /// one delivery per entry, after the given delay (empty = lost)
    Deliver(Vec<Duration>),
    /// the sender's `send_to` fails with an io error
    SendError,
}

pub trait Policy: Send {
    fn fate(&mut self, d: &Dgram) -> Fate;
    /// How long the sender's `send_to` call itself takes before it returns (a slow socket keeps
    /// the caller -- e.g. a node's event loop -- busy). Only applied to real nodes' sockets.
    fn send_block(&mut self, _d: &Dgram) -> Duration {
        Duration::ZERO
    }
}

/// Everything is delivered immediately.
pub struct Instant0;
impl Policy for Instant0 {
    fn fate(&mut self, _d: &Dgram) -> Fate {
        Fate::Deliver(vec![Duration::ZERO])
    }
}

impl<F: FnMut(&Dgram) -> Fate + Send> Policy for F {
    fn fate(&mut self, d: &Dgram) -> Fate {
        self(d)
    }
}

type Inbox = mpsc::UnboundedSender<(Arc<Vec<u8>>, SocketAddr)>;

struct Inner {
    t0: tokio::time::Instant,
    inboxes: HashMap<SocketAddr, Inbox>,
    log: Vec<Ev>,
    policy: Box<dyn Policy>,
    pair_seq: HashMap<(SocketAddr, SocketAddr), u32>,
    next_dgram: u64,
    oversize: Vec<(Duration, SocketAddr, SocketAddr, usize)>,
    logging: bool,
}

#[derive(Clone)]
pub struct SimNet {
    inner: Arc<Mutex<Inner>>,
}

impl SimNet {
    /// Must be called inside the (paused) runtime.
    pub fn new(policy: Box<dyn Policy>) -> SimNet {
        SimNet {
            inner: Arc::new(Mutex::new(Inner {
                t0: tokio::time::Instant::now(),
                inboxes: HashMap::new(),
                log: Vec::new(),
                policy,
                pair_seq: HashMap::new(),
                next_dgram: 0,
                oversize: Vec::new(),
                logging: true,
            })),
        }
    }

    /// Switch the wire log off (long end-to-end runs whose oracle only needs the API).
    pub fn set_logging(&self, on: bool) {
        self.inner.lock().unwrap().logging = on;
    }

    pub fn set_policy(&self, policy: Box<dyn Policy>) {
        self.inner.lock().unwrap().policy = policy;
    }

    pub fn now(&self) -> Duration {
        let g = self.inner.lock().unwrap();
        tokio::time::Instant::now() - g.t0
    }

    pub fn now_ms(&self) -> u64 {
        self.now().as_millis() as u64
    }

    /// Sleep until virtual time `t` (since network creation); returns immediately if past.
    pub async fn sleep_until(&self, t: Duration) {
        let t0 = self.inner.lock().unwrap().t0;
        tokio::time::sleep_until(t0 + t).await;
    }

    /// Let everything that is runnable at the current instant run, then advance 1 ms.
    pub async fn settle(&self) {
        tokio::time::sleep(Duration::from_millis(1)).await;
    }

    pub fn bind(&self, addr: SocketAddr) -> SimSocket {
        let (tx, rx) = mpsc::unbounded_channel();
        self.inner.lock().unwrap().inboxes.insert(addr, tx);
        SimSocket { net: self.clone(), addr, rx: tokio::sync::Mutex::new(rx) }
    }

    /// A raw endpoint for harness-side peers.
    pub fn endpoint(&self, addr: SocketAddr) -> Endpoint {
        let (tx, rx) = mpsc::unbounded_channel();
        self.inner.lock().unwrap().inboxes.insert(addr, tx);
        Endpoint { net: self.clone(), addr, rx }
    }

    pub fn unbind(&self, addr: &SocketAddr) {
        self.inner.lock().unwrap().inboxes.remove(addr);
    }

    pub fn log(&self) -> Vec<Ev> {
        self.inner.lock().unwrap().log.clone()
    }

    pub fn log_len(&self) -> usize {
        self.inner.lock().unwrap().log.len()
    }

    pub fn log_from(&self, start: usize) -> Vec<Ev> {
        self.inner.lock().unwrap().log[start..].to_vec()
    }

    /// Datagrams longer than 1500 bytes seen so far: (time, from, to, len).
    pub fn oversize(&self) -> Vec<(Duration, SocketAddr, SocketAddr, usize)> {
        self.inner.lock().unwrap().oversize.clone()
    }

    fn send_block(&self, from: SocketAddr, to: SocketAddr, data: &[u8]) -> Duration {
        let mut g = self.inner.lock().unwrap();
        let now = tokio::time::Instant::now() - g.t0;
        let seq = g.pair_seq.get(&(from, to)).copied().unwrap_or(0);
        g.policy.send_block(&Dgram { from, to, seq, bytes: data, now })
    }

    fn deliver(&self, dgram: u64, from: SocketAddr, to: SocketAddr, bytes: Arc<Vec<u8>>) {
        let mut g = self.inner.lock().unwrap();
        let t = tokio::time::Instant::now() - g.t0;
        let ok = match g.inboxes.get(&to) {
            Some(tx) => tx.send((bytes.clone(), from)).is_ok(),
            None => false,
        };
        if g.logging {
            g.log.push(Ev { t, kind: if ok { EvKind::Deliver } else { EvKind::NoRoute }, from, to, bytes, dgram });
        }
    }

    /// Send through the policy. Returns Err if the policy injects a send failure.
    pub fn send(&self, from: SocketAddr, to: SocketAddr, data: &[u8]) -> io::Result<()> {
        let bytes = Arc::new(data.to_vec());
        let (dgram, delays) = {
            let mut g = self.inner.lock().unwrap();
            let now = tokio::time::Instant::now() - g.t0;
            let seq = {
                let e = g.pair_seq.entry((from, to)).or_insert(0);
                let s = *e;
                *e += 1;
                s
            };
            let dgram = g.next_dgram;
            g.next_dgram += 1;
            if data.len() > 1500 {
                g.oversize.push((now, from, to, data.len()));
            }
            let fate = g.policy.fate(&Dgram { from, to, seq, bytes: data, now });
            match fate {
                Fate::SendError => {
                    if g.logging {
                        g.log.push(Ev { t: now, kind: EvKind::SendFailed, from, to, bytes, dgram });
                    }
                    return Err(io::Error::new(io::ErrorKind::Other, "simulated send failure"));
                }
                Fate::Deliver(delays) => {
                    if g.logging {
                        g.log.push(Ev { t: now, kind: EvKind::Send { copies: delays.len() as u8 }, from, to, bytes: bytes.clone(), dgram });
                    }
                    (dgram, delays)
                }
            }
        };
        for d in delays {
            if d.is_zero() {
                self.deliver(dgram, from, to, bytes.clone());
            } else {
                let net = self.clone();
                let b = bytes.clone();
                tokio::spawn(async move {
                    tokio::time::sleep(d).await;
                    net.deliver(dgram, from, to, b);
                });
            }
        }
        Ok(())
    }

    /// Deliver a datagram right now, bypassing the policy (harness injection).
    pub fn inject(&self, from: SocketAddr, to: SocketAddr, data: &[u8]) -> u64 {
        let bytes = Arc::new(data.to_vec());
        let dgram = {
            let mut g = self.inner.lock().unwrap();
            let now = tokio::time::Instant::now() - g.t0;
            let dgram = g.next_dgram;
            g.next_dgram += 1;
            g.log.push(Ev { t: now, kind: EvKind::Send { copies: 1 }, from, to, bytes: bytes.clone(), dgram });
            dgram
        };
        self.deliver(dgram, from, to, bytes);
        dgram
    }
}

pub struct SimSocket {
    net: SimNet,
    addr: SocketAddr,
    rx: tokio::sync::Mutex<mpsc::UnboundedReceiver<(Arc<Vec<u8>>, SocketAddr)>>,
}

#[async_trait]
impl SocketTrait for SimSocket {
    async fn send_to(&self, buf: &[u8], target: &SocketAddr) -> io::Result<()> {
        let block = self.net.send_block(self.addr, *target, buf);
        if !block.is_zero() {
            tokio::time::sleep(block).await;
        }
        self.net.send(self.addr, *target, buf)
    }

    async fn recv_from(&self, buf: &mut [u8]) -> io::Result<(usize, SocketAddr)> {
        let mut rx = self.rx.lock().await;
        match rx.recv().await {
            Some((bytes, from)) => {
                let n = bytes.len().min(buf.len());
                buf[..n].copy_from_slice(&bytes[..n]);
                Ok((n, from))
            }
            None => std::future::pending().await,
        }
    }

    fn local_addr(&self) -> io::Result<SocketAddr> {
        Ok(self.addr)
    }
}

pub struct Endpoint {
    pub net: SimNet,
    pub addr: SocketAddr,
    pub rx: mpsc::UnboundedReceiver<(Arc<Vec<u8>>, SocketAddr)>,
}

impl Endpoint {
    pub fn send(&self, to: SocketAddr, data: &[u8]) {
        let _ = self.net.send(self.addr, to, data);
    }
    pub async fn recv(&mut self) -> Option<(Arc<Vec<u8>>, SocketAddr)> {
        self.rx.recv().await
    }
    pub fn try_recv(&mut self) -> Option<(Arc<Vec<u8>>, SocketAddr)> {
        self.rx.try_recv().ok()
    }
}

pub fn paused_rt(seed: u64) -> tokio::runtime::Runtime {
    tokio::runtime::Builder::new_current_thread()
        .enable_time()
        .start_paused(true)
        .rng_seed(tokio::runtime::RngSeed::from_bytes(&seed.to_le_bytes()))
        .build()
        .expect("runtime")
}

/// Await `fut` for at most `limit` of virtual time.
pub async fn within<T>(limit: Duration, fut: impl std::future::Future<Output = T>) -> Option<T> {
    tokio::time::timeout(limit, fut).await.ok()
}

pub fn v4(a: u8, b: u8, port: u16) -> SocketAddr {
    SocketAddr::from(([10, 0, a, b], port))
}

pub fn v6(n: u16, port: u16) -> SocketAddr {
    SocketAddr::from((std::net::Ipv6Addr::new(0xfd00, 0, 0, 0, 0, 0, 0, n), port))
}

/// Loss-free latency policy: the delay of the n-th datagram on a directed pair is taken from a
/// generated table (cycled), so it is a pure function of the case and the datagram's identity.
pub struct LatencyTable {
    pub table: Vec<u16>,
}

fn addr_hash(a: &SocketAddr) -> u64 {
    let mut x: u64 = a.port() as u64;
    match a.ip() {
        std::net::IpAddr::V4(i) => x = x.wrapping_mul(0x9E37_79B9).wrapping_add(u32::from(i) as u64),
        std::net::IpAddr::V6(i) => {
            for o in i.octets() {
                x = x.wrapping_mul(131).wrapping_add(o as u64);
            }
        }
    }
    crate::engine::splitmix(x)
}

impl LatencyTable {
    pub fn delay(&self, d: &Dgram) -> Duration {
        if self.table.is_empty() {
            return Duration::ZERO;
        }
        let h = addr_hash(&d.from).rotate_left(13) ^ addr_hash(&d.to);
        let i = (h as usize).wrapping_add(d.seq as usize) % self.table.len();
        Duration::from_millis(self.table[i] as u64)
    }
}

impl Policy for LatencyTable {
    fn fate(&mut self, d: &Dgram) -> Fate {
        Fate::Deliver(vec![self.delay(d)])
    }
}

/// Loss-free latency policy with a round-trip budget: each datagram is delayed by its table
/// entry (< 1 s), but a reply (same tid, reversed addresses) never arrives later than
/// `budget_ms` after its query was sent.
pub struct RttBudget {
    pub lat: LatencyTable,
    pub budget_ms: u64,
    /// (asker, asked, tid) -> time the query was sent (ms)
    pub queries: HashMap<(SocketAddr, SocketAddr, Vec<u8>), u64>,
}

impl RttBudget {
    pub fn new(table: Vec<u16>, budget_ms: u64) -> RttBudget {
        RttBudget { lat: LatencyTable { table }, budget_ms, queries: HashMap::new() }
    }
}

impl Policy for RttBudget {
    fn fate(&mut self, d: &Dgram) -> Fate {
        let mut delay = self.lat.delay(d).as_millis() as u64;
        if let Ok(m) = crate::bcodec::KMsg::decode(d.bytes) {
            let now = d.now.as_millis() as u64;
            match m.body {
                crate::bcodec::KBody::Query(_) => {
                    self.queries.insert((d.from, d.to, m.tid.clone()), now);
                }
                _ => {
                    if let Some(sent) = self.queries.get(&(d.to, d.from, m.tid.clone())) {
                        let deadline = sent + self.budget_ms;
                        let latest = deadline.saturating_sub(now);
                        delay = delay.min(latest);
                    }
                }
            }
        }
        if self.queries.len() > 200_000 {
            self.queries.clear();
        }
        Fate::Deliver(vec![Duration::from_millis(delay)])
    }
}

/// Wraps a policy: `send_to` calls of `node` towards the addresses in `to` take `ms` milliseconds
/// (the node's event loop is busy meanwhile).
pub struct SlowSends<P: Policy> {
    pub inner: P,
    pub node: SocketAddr,
    pub to: Vec<SocketAddr>,
    pub ms: u64,
}

impl<P: Policy> Policy for SlowSends<P> {
    fn fate(&mut self, d: &Dgram) -> Fate {
        self.inner.fate(d)
    }
    fn send_block(&mut self, d: &Dgram) -> Duration {
        if d.from == self.node && self.to.contains(&d.to) {
            Duration::from_millis(self.ms)
        } else {
            Duration::ZERO
        }
    }
}

/// A stranger that pings `node` every `period_ms` (from `start_ms` on, `count` times).
pub fn spawn_pinger(net: &SimNet, from: SocketAddr, node: SocketAddr, start_ms: u64, period_ms: u64, count: u32) {
    let net = net.clone();
    tokio::spawn(async move {
        for k in 0..count {
            net.sleep_until(Duration::from_millis(start_ms + k as u64 * period_ms)).await;
            let m = crate::bcodec::KMsg { tid: vec![b'P', (k >> 8) as u8, k as u8], body: crate::bcodec::KBody::Query(crate::bcodec::KQuery::Ping { id: vec![0xEE; 20] }) };
            let _ = net.send(from, node, &m.encode());
        }
    });
}
