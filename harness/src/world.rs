//! Harness-side peers ("puppets") speaking KRPC through the independent codec only, and helpers
//! to start real nodes on the simulated network.

use crate::bcodec::*;
use crate::sim::*;
use btdht::{InfoHash, MainlineDht};
use std::net::SocketAddr;
use std::sync::{Arc, Mutex};
use std::time::Duration;

pub struct Out {
    pub delay: Duration,
    pub to: SocketAddr,
    pub bytes: Vec<u8>,
}

impl Out {
    pub fn now(to: SocketAddr, m: &KMsg) -> Out {
        Out { delay: Duration::ZERO, to, bytes: m.encode() }
    }
    pub fn after(ms: u64, to: SocketAddr, m: &KMsg) -> Out {
        Out { delay: Duration::from_millis(ms), to, bytes: m.encode() }
    }
}

/// Spawn a puppet: `handler(raw bytes, decoded message if any, source, now)` returns datagrams
/// to send (each after its own delay, through the network policy).
pub fn spawn_puppet<F>(net: &SimNet, addr: SocketAddr, mut handler: F)
where
    F: FnMut(&[u8], Option<&KMsg>, SocketAddr, Duration) -> Vec<Out> + Send + 'static,
{
    let mut ep = net.endpoint(addr);
    tokio::spawn(async move {
        while let Some((bytes, from)) = ep.recv().await {
            let msg = KMsg::decode(&bytes).ok();
            let now = ep.net.now();
            for o in handler(&bytes, msg.as_ref(), from, now) {
                if o.delay.is_zero() {
                    ep.send(o.to, &o.bytes);
                } else {
                    let net = ep.net.clone();
                    let a = ep.addr;
                    tokio::spawn(async move {
                        tokio::time::sleep(o.delay).await;
                        let _ = net.send(a, o.to, &o.bytes);
                    });
                }
            }
        }
    });
}

pub fn resp(tid: &[u8], r: KResp) -> KMsg {
    KMsg { tid: tid.to_vec(), body: KBody::Resp(r) }
}

pub fn id_of(v: &[u8]) -> Id {
    let mut a = [0u8; 20];
    a.copy_from_slice(&v[..20]);
    a
}

pub fn xor_dist(a: &Id, b: &[u8]) -> Id {
    let mut d = [0u8; 20];
    for i in 0..20 {
        d[i] = a[i] ^ b[i];
    }
    d
}

/// Split a (id, addr) list into the nodes / nodes6 fields.
pub fn node_lists(list: &[(Id, SocketAddr)]) -> (Vec<(Id, std::net::SocketAddrV4)>, Vec<(Id, std::net::SocketAddrV6)>) {
    let mut n4 = vec![];
    let mut n6 = vec![];
    for (id, a) in list {
        match a {
            SocketAddr::V4(a) => n4.push((*id, *a)),
            SocketAddr::V6(a) => n6.push((*id, *a)),
        }
    }
    (n4, n6)
}

/// A simple well-behaved contact: answers ping / find_node / get_peers / announce_peer with its
/// id, names `names` in node lists, after `delay_ms`. Counts the queries it received.
pub fn spawn_simple_contact(
    net: &SimNet,
    addr: SocketAddr,
    id: Id,
    names: Vec<(Id, SocketAddr)>,
    delay_ms: u64,
) -> Arc<Mutex<u64>> {
    let counter = Arc::new(Mutex::new(0u64));
    let c2 = counter.clone();
    spawn_puppet(net, addr, move |_raw, msg, from, _now| {
        let Some(m) = msg else { return vec![] };
        let KBody::Query(q) = &m.body else { return vec![] };
        *c2.lock().unwrap() += 1;
        // name at most 30 nodes per answer (keeps the reply well within 1500 bytes), rotating
        // through the list so that every name is mentioned over time
        let n_q = *c2.lock().unwrap() as usize;
        let window: Vec<(Id, SocketAddr)> = if names.len() <= 30 {
            names.clone()
        } else {
            (0..30).map(|k| names[(n_q * 30 + k) % names.len()]).collect()
        };
        let (nodes, nodes6) = node_lists(&window);
        let r = match q {
            KQuery::Ping { .. } | KQuery::Announce { .. } => KResp { id: id.to_vec(), ..Default::default() },
            KQuery::FindNode { .. } => KResp { id: id.to_vec(), nodes, nodes6, ..Default::default() },
            KQuery::GetPeers { .. } => KResp { id: id.to_vec(), nodes, nodes6, token: Some(b"puppet-token".to_vec()), ..Default::default() },
        };
        vec![Out::after(delay_ms, from, &resp(&m.tid, r))]
    });
    counter
}

pub struct NodeCfg {
    pub addr: SocketAddr,
    pub id: Id,
    pub read_only: bool,
    pub nodes: Vec<SocketAddr>,
    pub routers: Vec<String>,
    pub announce_port: Option<u16>,
}

/// Start a real btdht node on the simulated network (must run inside the runtime).
pub fn start_node(net: &SimNet, cfg: &NodeCfg) -> MainlineDht {
    let sock = net.bind(cfg.addr);
    let mut b = MainlineDht::builder().set_read_only(cfg.read_only).set_node_id(InfoHash::from(cfg.id));
    for n in &cfg.nodes {
        b = b.add_node(*n);
    }
    for r in &cfg.routers {
        b = b.add_router(r.clone());
    }
    if let Some(p) = cfg.announce_port {
        b = b.set_announce_port(p);
    }
    b.start(sock).expect("start node")
}

/// All datagrams `who` handed to the network in log[start..], decoded when possible.
pub fn sent_by(log: &[Ev], who: SocketAddr) -> Vec<(&Ev, Option<KMsg>)> {
    log.iter()
        .filter(|e| e.from == who && matches!(e.kind, EvKind::Send { .. } | EvKind::SendFailed))
        .map(|e| (e, KMsg::decode(&e.bytes).ok()))
        .collect()
}

pub fn is_reply(m: &KMsg) -> bool {
    matches!(m.body, KBody::Resp(_) | KBody::Error { .. })
}
