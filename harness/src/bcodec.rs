//! Independent bencode + KRPC codec, written from BEP3/BEP5/BEP32 without using btdht or
//! serde_bencode. It is the reference for C13 and the only codec the simulated peers use.

use std::net::{IpAddr, Ipv4Addr, Ipv6Addr, SocketAddr, SocketAddrV4, SocketAddrV6};

#[derive(Clone, Debug, PartialEq, Eq, serde::Serialize, serde::Deserialize)]
pub enum B {
    Int(i64),
    Bytes(Vec<u8>),
    List(Vec<B>),
    /// Key/value pairs in *wire order* (not necessarily sorted).
    Dict(Vec<(Vec<u8>, B)>),
    /// Verbatim bytes (only produced by mutators; never by the parser).
    Raw(Vec<u8>),
}

impl B {
    pub fn bytes(b: &[u8]) -> B {
        B::Bytes(b.to_vec())
    }
    pub fn str(s: &str) -> B {
        B::Bytes(s.as_bytes().to_vec())
    }
    pub fn get(&self, key: &str) -> Option<&B> {
        match self {
            B::Dict(kv) => kv.iter().rev().find(|(k, _)| k == key.as_bytes()).map(|(_, v)| v),
            _ => None,
        }
    }
    pub fn get_mut(&mut self, key: &str) -> Option<&mut B> {
        match self {
            B::Dict(kv) => kv.iter_mut().rev().find(|(k, _)| k == key.as_bytes()).map(|(_, v)| v),
            _ => None,
        }
    }
    pub fn as_bytes(&self) -> Option<&[u8]> {
        match self {
            B::Bytes(b) => Some(b),
            _ => None,
        }
    }
    pub fn as_int(&self) -> Option<i64> {
        match self {
            B::Int(i) => Some(*i),
            _ => None,
        }
    }
    pub fn as_list(&self) -> Option<&[B]> {
        match self {
            B::List(l) => Some(l),
            _ => None,
        }
    }
    /// Recursively sort dictionary keys (canonical form).
    pub fn canon(&self) -> B {
        match self {
            B::List(l) => B::List(l.iter().map(|x| x.canon()).collect()),
            B::Dict(kv) => {
                let mut kv: Vec<(Vec<u8>, B)> =
                    kv.iter().map(|(k, v)| (k.clone(), v.canon())).collect();
                kv.sort_by(|a, b| a.0.cmp(&b.0));
                B::Dict(kv)
            }
            x => x.clone(),
        }
    }
    pub fn encode(&self) -> Vec<u8> {
        let mut out = Vec::new();
        self.encode_into(&mut out);
        out
    }
    pub fn encode_into(&self, out: &mut Vec<u8>) {
        match self {
            B::Int(i) => {
                out.push(b'i');
                out.extend_from_slice(i.to_string().as_bytes());
                out.push(b'e');
            }
            B::Bytes(b) => {
                out.extend_from_slice(b.len().to_string().as_bytes());
                out.push(b':');
                out.extend_from_slice(b);
            }
            B::List(l) => {
                out.push(b'l');
                for x in l {
                    x.encode_into(out);
                }
                out.push(b'e');
            }
            B::Raw(r) => out.extend_from_slice(r),
            B::Dict(kv) => {
                out.push(b'd');
                for (k, v) in kv {
                    out.extend_from_slice(k.len().to_string().as_bytes());
                    out.push(b':');
                    out.extend_from_slice(k);
                    v.encode_into(out);
                }
                out.push(b'e');
            }
        }
    }
    pub fn depth(&self) -> usize {
        match self {
            B::List(l) => 1 + l.iter().map(|x| x.depth()).max().unwrap_or(0),
            B::Dict(kv) => 1 + kv.iter().map(|(_, x)| x.depth()).max().unwrap_or(0),
            _ => 0,
        }
    }
}

/// Parse one bencode value and require that it consumes the whole input.
pub fn parse(data: &[u8]) -> Result<B, String> {
    let mut p = Parser { d: data, i: 0 };
    let v = p.value(0)?;
    if p.i != data.len() {
        return Err(format!("trailing bytes at {}", p.i));
    }
    Ok(v)
}

/// Parse a prefix; returns the value and the number of bytes consumed.
pub fn parse_prefix(data: &[u8]) -> Result<(B, usize), String> {
    let mut p = Parser { d: data, i: 0 };
    let v = p.value(0)?;
    Ok((v, p.i))
}

struct Parser<'a> {
    d: &'a [u8],
    i: usize,
}

impl<'a> Parser<'a> {
    fn peek(&self) -> Result<u8, String> {
        self.d.get(self.i).copied().ok_or_else(|| "eof".to_string())
    }
    fn value(&mut self, depth: usize) -> Result<B, String> {
        if depth > 2000 {
            return Err("too deep".into());
        }
        match self.peek()? {
            b'i' => {
                self.i += 1;
                let start = self.i;
                while self.peek()? != b'e' {
                    self.i += 1;
                }
                let s = std::str::from_utf8(&self.d[start..self.i]).map_err(|e| e.to_string())?;
                let v: i64 = s.parse().map_err(|_| format!("bad int {s:?}"))?;
                self.i += 1;
                Ok(B::Int(v))
            }
            b'l' => {
                self.i += 1;
                let mut l = vec![];
                while self.peek()? != b'e' {
                    l.push(self.value(depth + 1)?);
                }
                self.i += 1;
                Ok(B::List(l))
            }
            b'd' => {
                self.i += 1;
                let mut kv = vec![];
                while self.peek()? != b'e' {
                    let k = self.bytes()?;
                    let v = self.value(depth + 1)?;
                    kv.push((k, v));
                }
                self.i += 1;
                Ok(B::Dict(kv))
            }
            b'0'..=b'9' => Ok(B::Bytes(self.bytes()?)),
            c => Err(format!("unexpected byte {c:#x} at {}", self.i)),
        }
    }
    fn bytes(&mut self) -> Result<Vec<u8>, String> {
        let start = self.i;
        while self.peek()?.is_ascii_digit() {
            self.i += 1;
        }
        if self.peek()? != b':' || self.i == start {
            return Err(format!("bad string length at {start}"));
        }
        let s = std::str::from_utf8(&self.d[start..self.i]).unwrap();
        let n: usize = s.parse().map_err(|_| format!("bad length {s:?}"))?;
        self.i += 1;
        if n > self.d.len() - self.i {
            return Err("string exceeds input".into());
        }
        let v = self.d[self.i..self.i + n].to_vec();
        self.i += n;
        Ok(v)
    }
}

// ---------------------------------------------------------------------------------------------
// KRPC model

pub type Id = [u8; 20];

#[derive(Clone, Copy, Debug, PartialEq, Eq, serde::Serialize, serde::Deserialize)]
pub enum KWant {
    Absent,
    N4,
    N6,
    Both,
}

#[derive(Clone, Debug, PartialEq, Eq, serde::Serialize, serde::Deserialize)]
pub enum KQuery {
    Ping {
        #[serde(with = "hexser")]
        id: Vec<u8>,
    },
    FindNode {
        #[serde(with = "hexser")]
        id: Vec<u8>,
        #[serde(with = "hexser")]
        target: Vec<u8>,
        want: KWant,
    },
    GetPeers {
        #[serde(with = "hexser")]
        id: Vec<u8>,
        #[serde(with = "hexser")]
        info_hash: Vec<u8>,
        want: KWant,
    },
    /// `port: None` = implied port
    Announce {
        #[serde(with = "hexser")]
        id: Vec<u8>,
        #[serde(with = "hexser")]
        info_hash: Vec<u8>,
        port: Option<u16>,
        #[serde(with = "hexser")]
        token: Vec<u8>,
    },
}

pub mod hexser {
    use serde::{Deserialize, Deserializer, Serializer};
    pub fn serialize<S: Serializer>(v: &Vec<u8>, s: S) -> Result<S::Ok, S::Error> {
        s.serialize_str(&super::hex(v))
    }
    pub fn deserialize<'de, D: Deserializer<'de>>(d: D) -> Result<Vec<u8>, D::Error> {
        Ok(super::unhex(&String::deserialize(d)?))
    }
}

pub mod hexopt {
    use serde::{Deserialize, Deserializer, Serializer};
    pub fn serialize<S: Serializer>(v: &Option<Vec<u8>>, s: S) -> Result<S::Ok, S::Error> {
        match v {
            Some(v) => s.serialize_some(&super::hex(v)),
            None => s.serialize_none(),
        }
    }
    pub fn deserialize<'de, D: Deserializer<'de>>(d: D) -> Result<Option<Vec<u8>>, D::Error> {
        Ok(Option::<String>::deserialize(d)?.map(|s| super::unhex(&s)))
    }
}

pub mod nodeser {
    use serde::{Deserialize, Deserializer, Serialize, Serializer};
    pub fn serialize<S: Serializer, A: ToString>(v: &Vec<(super::Id, A)>, s: S) -> Result<S::Ok, S::Error> {
        let x: Vec<(String, String)> = v.iter().map(|(i, a)| (super::hex(i), a.to_string())).collect();
        x.serialize(s)
    }
    pub fn deserialize<'de, D: Deserializer<'de>, A: std::str::FromStr>(d: D) -> Result<Vec<(super::Id, A)>, D::Error> {
        let x = Vec::<(String, String)>::deserialize(d)?;
        x.into_iter()
            .map(|(i, a)| {
                let mut id = [0u8; 20];
                let b = super::unhex(&i);
                if b.len() != 20 {
                    return Err(serde::de::Error::custom("id length"));
                }
                id.copy_from_slice(&b);
                let a = a.parse().map_err(|_| serde::de::Error::custom("addr"))?;
                Ok((id, a))
            })
            .collect()
    }
}

impl KQuery {
    pub fn method(&self) -> &'static str {
        match self {
            KQuery::Ping { .. } => "ping",
            KQuery::FindNode { .. } => "find_node",
            KQuery::GetPeers { .. } => "get_peers",
            KQuery::Announce { .. } => "announce_peer",
        }
    }
    pub fn id(&self) -> &[u8] {
        match self {
            KQuery::Ping { id }
            | KQuery::FindNode { id, .. }
            | KQuery::GetPeers { id, .. }
            | KQuery::Announce { id, .. } => id,
        }
    }
}

#[derive(Clone, Debug, PartialEq, Eq, Default, serde::Serialize, serde::Deserialize)]
pub struct KResp {
    #[serde(with = "hexser")]
    pub id: Vec<u8>,
    #[serde(with = "hexopt")]
    pub token: Option<Vec<u8>>,
    pub values: Vec<SocketAddr>,
    #[serde(with = "nodeser")]
    pub nodes: Vec<(Id, SocketAddrV4)>,
    #[serde(with = "nodeser")]
    pub nodes6: Vec<(Id, SocketAddrV6)>,
}

#[derive(Clone, Debug, PartialEq, Eq, serde::Serialize, serde::Deserialize)]
pub enum KBody {
    Query(KQuery),
    Resp(KResp),
    Error { code: i64, msg: String },
}

#[derive(Clone, Debug, PartialEq, Eq, serde::Serialize, serde::Deserialize)]
pub struct KMsg {
    #[serde(with = "hexser")]
    pub tid: Vec<u8>,
    pub body: KBody,
}

pub fn compact_addr(a: &SocketAddr) -> Vec<u8> {
    let mut v = match a.ip() {
        IpAddr::V4(ip) => ip.octets().to_vec(),
        IpAddr::V6(ip) => ip.octets().to_vec(),
    };
    v.push((a.port() >> 8) as u8);
    v.push((a.port() & 0xff) as u8);
    v
}

pub fn parse_compact_addr(b: &[u8]) -> Option<SocketAddr> {
    match b.len() {
        6 => Some(SocketAddr::new(
            IpAddr::V4(Ipv4Addr::new(b[0], b[1], b[2], b[3])),
            (b[4] as u16) << 8 | b[5] as u16,
        )),
        18 => {
            let mut o = [0u8; 16];
            o.copy_from_slice(&b[..16]);
            Some(SocketAddr::new(IpAddr::V6(Ipv6Addr::from(o)), (b[16] as u16) << 8 | b[17] as u16))
        }
        _ => None,
    }
}

fn want_b(w: KWant) -> Option<B> {
    match w {
        KWant::Absent => None,
        KWant::N4 => Some(B::List(vec![B::str("n4")])),
        KWant::N6 => Some(B::List(vec![B::str("n6")])),
        KWant::Both => Some(B::List(vec![B::str("n4"), B::str("n6")])),
    }
}

fn d(mut kv: Vec<(&str, B)>) -> B {
    kv.sort_by(|a, b| a.0.as_bytes().cmp(b.0.as_bytes()));
    B::Dict(kv.into_iter().map(|(k, v)| (k.as_bytes().to_vec(), v)).collect())
}

impl KMsg {
    /// The canonical bencode tree (sorted keys) prescribed by BEP3/5/32 for this message.
    pub fn to_b(&self) -> B {
        match &self.body {
            KBody::Query(q) => {
                let mut a: Vec<(&str, B)> = vec![("id", B::bytes(q.id()))];
                match q {
                    KQuery::Ping { .. } => {}
                    KQuery::FindNode { target, want, .. } => {
                        a.push(("target", B::bytes(target)));
                        if let Some(w) = want_b(*want) {
                            a.push(("want", w));
                        }
                    }
                    KQuery::GetPeers { info_hash, want, .. } => {
                        a.push(("info_hash", B::bytes(info_hash)));
                        if let Some(w) = want_b(*want) {
                            a.push(("want", w));
                        }
                    }
                    KQuery::Announce { info_hash, port, token, .. } => {
                        a.push(("info_hash", B::bytes(info_hash)));
                        match port {
                            Some(p) => a.push(("port", B::Int(*p as i64))),
                            None => {
                                a.push(("implied_port", B::Int(1)));
                                a.push(("port", B::Int(0)));
                            }
                        }
                        a.push(("token", B::bytes(token)));
                    }
                }
                d(vec![
                    ("a", d(a)),
                    ("q", B::str(q.method())),
                    ("t", B::bytes(&self.tid)),
                    ("y", B::str("q")),
                ])
            }
            KBody::Resp(r) => {
                let mut kv: Vec<(&str, B)> = vec![("id", B::bytes(&r.id))];
                if !r.nodes.is_empty() {
                    let mut buf = vec![];
                    for (id, a) in &r.nodes {
                        buf.extend_from_slice(id);
                        buf.extend_from_slice(&compact_addr(&SocketAddr::V4(*a)));
                    }
                    kv.push(("nodes", B::Bytes(buf)));
                }
                if !r.nodes6.is_empty() {
                    let mut buf = vec![];
                    for (id, a) in &r.nodes6 {
                        buf.extend_from_slice(id);
                        buf.extend_from_slice(&compact_addr(&SocketAddr::V6(*a)));
                    }
                    kv.push(("nodes6", B::Bytes(buf)));
                }
                if let Some(t) = &r.token {
                    kv.push(("token", B::bytes(t)));
                }
                if !r.values.is_empty() {
                    kv.push((
                        "values",
                        B::List(r.values.iter().map(|a| B::Bytes(compact_addr(a))).collect()),
                    ));
                }
                d(vec![("r", d(kv)), ("t", B::bytes(&self.tid)), ("y", B::str("r"))])
            }
            KBody::Error { code, msg } => d(vec![
                ("e", B::List(vec![B::Int(*code), B::str(msg)])),
                ("t", B::bytes(&self.tid)),
                ("y", B::str("e")),
            ]),
        }
    }

    pub fn encode(&self) -> Vec<u8> {
        self.to_b().encode()
    }

    /// Lenient decoder (keys in any order, unknown keys ignored).
    pub fn from_b(b: &B) -> Result<KMsg, String> {
        let tid = b.get("t").and_then(|x| x.as_bytes()).ok_or("no t")?.to_vec();
        let y = b.get("y").and_then(|x| x.as_bytes()).ok_or("no y")?;
        let id20 = |x: Option<&B>, what: &str| -> Result<Vec<u8>, String> {
            let v = x.and_then(|x| x.as_bytes()).ok_or(format!("no {what}"))?;
            if v.len() != 20 {
                return Err(format!("{what} has length {}", v.len()));
            }
            Ok(v.to_vec())
        };
        let want = |a: &B| -> KWant {
            let mut n4 = false;
            let mut n6 = false;
            if let Some(l) = a.get("want").and_then(|w| w.as_list()) {
                for x in l {
                    match x.as_bytes() {
                        Some(b"n4") => n4 = true,
                        Some(b"n6") => n6 = true,
                        _ => {}
                    }
                }
            } else {
                return KWant::Absent;
            }
            match (n4, n6) {
                (true, true) => KWant::Both,
                (true, false) => KWant::N4,
                (false, true) => KWant::N6,
                (false, false) => KWant::Absent,
            }
        };
        let body = match y {
            b"q" => {
                let q = b.get("q").and_then(|x| x.as_bytes()).ok_or("no q")?;
                let a = b.get("a").ok_or("no a")?;
                let id = id20(a.get("id"), "id")?;
                KBody::Query(match q {
                    b"ping" => KQuery::Ping { id },
                    b"find_node" => KQuery::FindNode {
                        id,
                        target: id20(a.get("target"), "target")?,
                        want: want(a),
                    },
                    b"get_peers" => KQuery::GetPeers {
                        id,
                        info_hash: id20(a.get("info_hash"), "info_hash")?,
                        want: want(a),
                    },
                    b"announce_peer" => {
                        let implied =
                            a.get("implied_port").and_then(|x| x.as_int()).unwrap_or(0) != 0;
                        let port = a.get("port").and_then(|x| x.as_int());
                        KQuery::Announce {
                            id,
                            info_hash: id20(a.get("info_hash"), "info_hash")?,
                            port: if implied {
                                None
                            } else {
                                Some(port.ok_or("no port")? as u16)
                            },
                            token: a
                                .get("token")
                                .and_then(|x| x.as_bytes())
                                .ok_or("no token")?
                                .to_vec(),
                        }
                    }
                    other => return Err(format!("unknown method {:?}", String::from_utf8_lossy(other))),
                })
            }
            b"r" => {
                let r = b.get("r").ok_or("no r")?;
                let id = id20(r.get("id"), "r.id")?;
                let mut resp = KResp { id, ..Default::default() };
                resp.token = r.get("token").and_then(|x| x.as_bytes()).map(|x| x.to_vec());
                if let Some(v) = r.get("values") {
                    for x in v.as_list().ok_or("values not a list")? {
                        let bytes = x.as_bytes().ok_or("value not bytes")?;
                        resp.values
                            .push(parse_compact_addr(bytes).ok_or(format!("value of length {}", bytes.len()))?);
                    }
                }
                if let Some(n) = r.get("nodes") {
                    let n = n.as_bytes().ok_or("nodes not bytes")?;
                    if n.len() % 26 != 0 {
                        return Err(format!("nodes length {}", n.len()));
                    }
                    for c in n.chunks(26) {
                        let mut id = [0u8; 20];
                        id.copy_from_slice(&c[..20]);
                        match parse_compact_addr(&c[20..]) {
                            Some(SocketAddr::V4(a)) => resp.nodes.push((id, a)),
                            _ => unreachable!(),
                        }
                    }
                }
                if let Some(n) = r.get("nodes6") {
                    let n = n.as_bytes().ok_or("nodes6 not bytes")?;
                    if n.len() % 38 != 0 {
                        return Err(format!("nodes6 length {}", n.len()));
                    }
                    for c in n.chunks(38) {
                        let mut id = [0u8; 20];
                        id.copy_from_slice(&c[..20]);
                        match parse_compact_addr(&c[20..]) {
                            Some(SocketAddr::V6(a)) => resp.nodes6.push((id, a)),
                            _ => unreachable!(),
                        }
                    }
                }
                KBody::Resp(resp)
            }
            b"e" => {
                let e = b.get("e").and_then(|x| x.as_list()).ok_or("no e")?;
                let code = e.first().and_then(|x| x.as_int()).ok_or("no code")?;
                let msg = e.get(1).and_then(|x| x.as_bytes()).ok_or("no msg")?;
                KBody::Error { code, msg: String::from_utf8_lossy(msg).to_string() }
            }
            other => return Err(format!("unknown y {:?}", other)),
        };
        Ok(KMsg { tid, body })
    }

    pub fn decode(data: &[u8]) -> Result<KMsg, String> {
        KMsg::from_b(&parse(data)?)
    }
}

pub fn hex(b: &[u8]) -> String {
    b.iter().map(|x| format!("{x:02x}")).collect()
}

pub fn unhex(s: &str) -> Vec<u8> {
    (0..s.len() / 2).map(|i| u8::from_str_radix(&s[2 * i..2 * i + 2], 16).unwrap_or(0)).collect()
}

/// Self tests against the BEP5 examples and the strings of btdht's own message tests.
pub fn selftest() -> Result<(), String> {
    let id1 = b"abcdefghij0123456789".to_vec();
    let t = b"aa".to_vec();
    let cases: Vec<(KMsg, &[u8])> = vec![
        (
            KMsg { tid: t.clone(), body: KBody::Query(KQuery::Ping { id: id1.clone() }) },
            b"d1:ad2:id20:abcdefghij0123456789e1:q4:ping1:t2:aa1:y1:qe",
        ),
        (
            KMsg {
                tid: t.clone(),
                body: KBody::Query(KQuery::FindNode {
                    id: id1.clone(),
                    target: b"mnopqrstuvwxyz123456".to_vec(),
                    want: KWant::Absent,
                }),
            },
            b"d1:ad2:id20:abcdefghij01234567896:target20:mnopqrstuvwxyz123456e1:q9:find_node1:t2:aa1:y1:qe",
        ),
        (
            KMsg {
                tid: t.clone(),
                body: KBody::Query(KQuery::GetPeers {
                    id: id1.clone(),
                    info_hash: b"mnopqrstuvwxyz123456".to_vec(),
                    want: KWant::Absent,
                }),
            },
            b"d1:ad2:id20:abcdefghij01234567899:info_hash20:mnopqrstuvwxyz123456e1:q9:get_peers1:t2:aa1:y1:qe",
        ),
        (
            KMsg {
                tid: t.clone(),
                body: KBody::Query(KQuery::Announce {
                    id: id1.clone(),
                    info_hash: b"mnopqrstuvwxyz123456".to_vec(),
                    port: None,
                    token: b"aoeusnth".to_vec(),
                }),
            },
            b"d1:ad2:id20:abcdefghij012345678912:implied_porti1e9:info_hash20:mnopqrstuvwxyz1234564:porti0e5:token8:aoeusnthe1:q13:announce_peer1:t2:aa1:y1:qe",
        ),
        (
            KMsg {
                tid: t.clone(),
                body: KBody::Query(KQuery::Announce {
                    id: id1.clone(),
                    info_hash: b"mnopqrstuvwxyz123456".to_vec(),
                    port: Some(6881),
                    token: b"aoeusnth".to_vec(),
                }),
            },
            b"d1:ad2:id20:abcdefghij01234567899:info_hash20:mnopqrstuvwxyz1234564:porti6881e5:token8:aoeusnthe1:q13:announce_peer1:t2:aa1:y1:qe",
        ),
        (
            KMsg {
                tid: t.clone(),
                body: KBody::Error { code: 201, msg: "A Generic Error Ocurred".into() },
            },
            b"d1:eli201e23:A Generic Error Ocurrede1:t2:aa1:y1:ee",
        ),
        (
            KMsg {
                tid: t.clone(),
                body: KBody::Resp(KResp {
                    id: id1.clone(),
                    token: Some(b"aoeusnth".to_vec()),
                    values: vec!["97.120.106.101:11893".parse().unwrap(), "105.100.104.116:28269".parse().unwrap()],
                    ..Default::default()
                }),
            },
            b"d1:rd2:id20:abcdefghij01234567895:token8:aoeusnth6:valuesl6:axje.u6:idhtnmee1:t2:aa1:y1:re",
        ),
    ];
    for (m, wire) in cases {
        let enc = m.encode();
        if enc != wire {
            return Err(format!(
                "bcodec selftest: encoding mismatch for {:?}: {:?}",
                m,
                String::from_utf8_lossy(&enc)
            ));
        }
        let back = KMsg::decode(wire)?;
        if back != m {
            return Err(format!("bcodec selftest: decoding mismatch {back:?} vs {m:?}"));
        }
    }
    // nested/permuted parse
    let v = parse(b"d1:y1:q1:t2:aa1:q4:ping1:ad2:id20:abcdefghij01234567891:vli1ed1:xleeeee")?;
    let m = KMsg::from_b(&v)?;
    if m.body != KBody::Query(KQuery::Ping { id: id1 }) {
        return Err("bcodec selftest: permuted ping".into());
    }
    for bad in [&b"d1:t2:aa"[..], b"i12", b"5:abc", b"d1:ti1e1:y1:qee", b"l", b"", b"i1ei2e", b"x"] {
        if let Ok(v) = parse(bad) {
            if KMsg::from_b(&v).is_ok() {
                return Err(format!("bcodec selftest: accepted {:?}", String::from_utf8_lossy(bad)));
            }
        }
    }
    Ok(())
}
